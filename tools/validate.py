#!/opt/veriftools/pyvenv/bin/python
import json,jsonschema,sys,glob
jsonschema.validate(json.load(open('/verif/MANIFEST.json')),json.load(open('/root/.vp/MANIFEST.schema.json')))
es=json.load(open('/root/.vp/EVIDENCE.schema.json'))
for f in glob.glob('/verif/evidence/*.json'):
    jsonschema.validate(json.load(open(f)),es); print('ok',f)
m=json.load(open('/verif/MANIFEST.json'))
ids={json.loads(l)['id'] for l in open('/verif/properties.jsonl')}
c={x['property_id'] for x in m['checks']}; n={x['property_id'] for x in m.get('not_applicable',[])}
assert c|n==ids and not (c&n), (ids-(c|n), c&n)
print('manifest ok; claimed',sorted(c))
