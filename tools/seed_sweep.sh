#!/bin/bash
# usage: seed_sweep.sh <first-seed> <last-seed> [ids...]  — runs the quick checks under several VERIF_SEED values;
# on the unchanged tree every one of them must exit 0 (no alarm).
VERIF="$(cd "$(dirname "${BASH_SOURCE[0]}")/.." && pwd)"
a="$1"; b="$2"; shift 2
ids=("$@"); [ ${#ids[@]} -eq 0 ] && ids=(C17 C10 C11 C16 C12)
cd "$VERIF" || exit 2
bad=0
for s in $(seq "$a" "$b"); do
  for id in "${ids[@]}"; do
    out=$(VERIF_SEED=$s ./check "$id" quick 2>&1); rc=$?
    echo "seed=$s $id rc=$rc $(echo "$out" | tail -1 | cut -c1-120)"
    if [ $rc -ne 0 ]; then bad=1; echo "$out" | grep -E "^violation|VIOLATION|HARNESS" | cut -c1-400; mkdir -p "$VERIF/sweep-failures"; cp "$VERIF"/replays/*.json "$VERIF/sweep-failures/" 2>/dev/null; fi
  done
done
exit $bad
