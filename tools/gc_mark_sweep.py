#!/usr/bin/env python3
"""Sensitivity sweep for C11: disable one marking call of services/gc.rs at a time (in a scratch
copy of the repository and of the harness, never in /repo) and record whether `lsp-sim --property
C11` (L1, quick size) reports a violation. A marking call the check does not miss is a position in
which the workload never puts a >=16-byte name followed by a read.
usage: gc_mark_sweep.py [--runs N] [--only K]   (writes /verif/SENSITIVITY-gc.md)"""
import os, re, shutil, subprocess, sys, json
runs = 8000
only = None
if '--runs' in sys.argv: runs = int(sys.argv[sys.argv.index('--runs')+1])
if '--only' in sys.argv: only = int(sys.argv[sys.argv.index('--only')+1])
W = '/tmp/sweep'
def sh(cmd, **kw): return subprocess.run(cmd, shell=True, capture_output=True, text=True, **kw)
if not os.path.exists(W+'/repo'):
    os.makedirs(W, exist_ok=True)
    print(sh(f'git -C /repo worktree add -q --detach {W}/repo HEAD').stderr)
    sh(f'rsync -a --exclude target --exclude target-miri /verif/sim {W}/')
    for root, _, files in os.walk(W+'/sim'):
        for f in files:
            if f == 'Cargo.toml':
                p = os.path.join(root, f); s = open(p).read()
                open(p, 'w').write(s.replace('"/repo/', f'"{W}/repo/'))
    shutil.copy('/verif/known_findings.json', W+'/known_findings.json')
gc = W+'/repo/crates/samlang-services/src/gc.rs'
orig = open(gc).read()
lines = orig.split('\n')
sites = []
for i, l in enumerate(lines):
    if l.lstrip().startswith('fn ') or '#[' in l: continue
    if i > orig[:orig.index('#[cfg(test)]')].count('\n'): break
    for m in re.finditer(r'\b(mark_\w+)\(heap, |\bheap\.mark\(', l):
        sites.append((i, m.start(), m.group(0)))
print(len(sites), 'marking call sites')
env = dict(os.environ, VERIF_ROOT=W, CARGO_NET_OFFLINE='true')
os.makedirs(W+'/evidence', exist_ok=True); os.makedirs(W+'/replays', exist_ok=True)
results = []
for k, (i, col, text) in enumerate(sites):
    if only is not None and k != only: continue
    l = lines[i]
    if text.startswith('heap.mark('):
        new = l[:col] + 'verif_nop(heap, ' + l[col+len(text):]
    else:
        new = l[:col] + 'verif_nop(heap, ' + l[col+len(text):]
    mutated = lines[:i] + [new] + lines[i+1:]
    src = '\n'.join(mutated).replace('fn mark_annot(heap: &mut Heap', '#[allow(dead_code)]\nfn verif_nop<T>(_: &mut Heap, _: T) {}\n\nfn mark_annot(heap: &mut Heap', 1)
    open(gc, 'w').write(src)
    b = sh(f'cd {W}/sim && cargo build --release --offline -p lsp-sim 2>&1 | grep -E "^error" -A 5', env=env)
    if b.stdout.strip():
        results.append((k, i+1, l.strip(), 'does not compile', '')); print(k, 'no compile', b.stdout[:200]); continue
    r = sh(f'cd {W}/sim && ./target/release/lsp-sim --property C11 --runs {runs} --l2-runs 0 --no-minimise 2>&1 | grep -E "^violation|^C11" | cut -c1-160', env=env)
    out = r.stdout.strip().split('\n')
    caught = any(x.startswith('violation') for x in out)
    sig = next((x for x in out if x.startswith('violation')), '')
    results.append((k, i+1, l.strip(), 'caught' if caught else 'MISSED', sig))
    print(k, i+1, 'caught' if caught else 'MISSED', l.strip()[:70], flush=True)
open(gc, 'w').write(orig)
if only is None:
    with open('/verif/SENSITIVITY-gc.md', 'w') as f:
        f.write('# Sensitivity of C11 to each marking call of services/gc.rs\n\n')
        f.write(f'One marking call disabled at a time in a scratch copy (tools/gc_mark_sweep.py, {runs} L1 runs each, no L2).\n\n')
        f.write('| # | gc.rs line | call site | result | first signature |\n|---|---|---|---|---|\n')
        for k, ln, l, res, sig in results:
            f.write(f'| {k} | {ln} | `{l[:90]}` | {res} | {sig[:120]} |\n')
        c = sum(1 for r in results if r[3] == 'caught'); f.write(f'\n{c} of {len(results)} caught.\n')
print('done')
