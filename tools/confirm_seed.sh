#!/bin/bash
# usage: confirm_seed.sh /tmp/wt/<ID>-<x>
# Confirms, inside the sub-agent's scratch worktree, that (1) with patch.diff the existing tests pass,
# (2) with patch.diff + demo the demo fails, (3) with the demo but without the patch everything passes.
set -u
wt="$1"; cd "$wt" || exit 2
export CARGO_TARGET_DIR="$wt/target" CARGO_NET_OFFLINE=true
s="$wt/seeded"
[ -f "$s/patch.diff" ] || { echo "no patch.diff"; exit 2; }
git stash list >/dev/null 2>&1; git stash clear 2>/dev/null
git reset -q --hard HEAD
git clean -fdq -e seeded -e target
run() { cargo test --workspace --offline --no-fail-fast 2>&1 | grep -E "^test result" | awk '{p+=$4; f+=$6} END {print p" passed "f" failed"}'; }
git apply "$s/patch.diff" || { echo "patch does not apply"; exit 2; }
r1=$(run); echo "with patch, no demo: $r1"
if [ -f "$s/demo.diff" ]; then git apply "$s/demo.diff" || { echo "demo.diff does not apply"; }; fi
r2=$(run); echo "with patch + demo:   $r2"
git apply -R "$s/patch.diff"
r3=$(run); echo "demo only:           $r3"
git reset -q --hard HEAD; git clean -fdq -e seeded -e target
git apply "$s/patch.diff"
echo "RESULT $wt | $r1 | $r2 | $r3"
