#!/bin/bash
# Determinism audit (DESIGN 3.6): every engine runs the same seeds twice in separate processes, once
# with 1 and once with 16 harness threads; the per-run event-log digests must be identical.
# usage: determinism_audit.sh [runs-scale]   exit 0 = deterministic, 2 = mismatch (harness bug)
set -u
VERIF="$(cd "$(dirname "${BASH_SOURCE[0]}")/.." && pwd)"
scale="${1:-1}"
cd "$VERIF/sim" || exit 2
export CARGO_NET_OFFLINE=true
cargo build --release --offline -p heap-sim -p lsp-sim -p compile-sim >/dev/null 2>&1 || { echo "HARNESS ERROR: build failed"; exit 2; }
# compile-sim as ./check C12 runs it: with edge instrumentation (preemption at basic-block edges)
CS="$VERIF/sim/target/release/compile-sim"
if [ "$(uname -m)" = "x86_64" ] && [ -z "${VERIF_NO_EDGE_PREEMPTION:-}" ]; then
  RUSTFLAGS="--cfg samlang_verif -Cpasses=sancov-module -Cllvm-args=-sanitizer-coverage-level=3 -Cllvm-args=-sanitizer-coverage-trace-pc-guard" \
    cargo build --release --offline -p compile-sim --target-dir "$VERIF/sim/target-sancov" --target x86_64-unknown-linux-gnu >/dev/null 2>&1 || { echo "HARNESS ERROR: instrumented build failed"; exit 2; }
  CS="$VERIF/sim/target-sancov/x86_64-unknown-linux-gnu/release/compile-sim"
fi
work="$VERIF/sim/target/audit"; rm -rf "$work"; mkdir -p "$work/evidence" "$work/replays"
cp "$VERIF/known_findings.json" "$work/"
export VERIF_ROOT="$work"
node=$(ls -d /root/.nvm/versions/node/v2[2-9]*/bin/node "$HOME"/.nvm/versions/node/v2[2-9]*/bin/node 2>/dev/null | sort -V | tail -1)
export VERIF_NODE="${VERIF_NODE:-$node}"
rc=0
audit() { # name, command...
  local name="$1"; shift
  VERIF_THREADS=1  "$@" --digests "$work/$name.a" >/dev/null 2>&1
  VERIF_THREADS=16 "$@" --digests "$work/$name.b" >/dev/null 2>&1
  VERIF_THREADS=7  "$@" --digests "$work/$name.c" >/dev/null 2>&1
  local n; n=$(wc -l < "$work/$name.a")
  if [ "$n" -gt 0 ] && cmp -s "$work/$name.a" "$work/$name.b" && cmp -s "$work/$name.a" "$work/$name.c"; then
    echo "deterministic: $name ($n runs x 3 processes, 1/16/7 harness threads, digests identical)"
  else
    echo "MISMATCH: $name"; diff "$work/$name.a" "$work/$name.b" | head -5; diff "$work/$name.a" "$work/$name.c" | head -5; rc=2
  fi
}
B="$VERIF/sim/target/release"
[ -n "${AUDIT_ONLY_COMPILE:-}" ] || audit heap-sim   "$B/heap-sim" --runs $((20000*scale))
[ -n "${AUDIT_ONLY_COMPILE:-}" ] || audit lsp-sim-C10 "$B/lsp-sim" --property C10 --runs $((1500*scale)) --no-minimise
[ -n "${AUDIT_ONLY_COMPILE:-}" ] || audit lsp-sim-C11 "$B/lsp-sim" --property C11 --runs $((1500*scale)) --no-minimise
[ -n "${AUDIT_ONLY_COMPILE:-}" ] || audit lsp-sim-C16 "$B/lsp-sim" --property C16 --runs $((1500*scale)) --no-minimise
audit compile-sim "$CS" --p1 $((3*scale)) --p2 6 --p3 12 --p4 $((40*scale))
rm -rf "$work"
exit $rc
