#!/bin/bash
# usage: eval_all_seeded.sh [ID-prefix ...]   — applies every /verif/seeded/<id>/patch.diff to /repo in turn,
# runs that property's quick check, reverts, and prints one line per seeded change (caught / MISSED).
# Never run this while a `vp run` job is rebuilding from /repo.
set -u
cd /verif || exit 2
for d in seeded/*/; do
  id=$(basename "$d"); prop=${id%%-*}
  if [ $# -gt 0 ]; then ok=0; for p in "$@"; do case "$id" in $p*) ok=1;; esac; done; [ $ok = 1 ] || continue; fi
  [ -f "$d/patch.diff" ] || continue
  out=$(tools/eval_seed.sh "/verif/$d/patch.diff" "$prop" 2>&1)
  if echo "$out" | grep -q "^VIOLATION"; then
    echo "$id caught  $(echo "$out" | grep -m1 '^violation' | cut -c1-140)"
  else
    echo "$id MISSED  $(echo "$out" | tail -1 | cut -c1-140)"
  fi
done
rm -f /verif/replays/*.json
