#!/bin/bash
# runs every thorough command once, one after the other; prints the last line of each and its exit code
VERIF="$(cd "$(dirname "${BASH_SOURCE[0]}")/.." && pwd)"; cd "$VERIF" || exit 2
rc_all=0
for id in C17 C16 C11 C10 C12; do
  out=$(./check "$id" thorough 2>&1); rc=$?
  echo "== $id thorough rc=$rc"; echo "$out" | grep -E "^violation|VIOLATION|HARNESS|miri tier|thorough:" | cut -c1-300
  [ $rc -ne 0 ] && rc_all=1
done
exit $rc_all
