#!/bin/bash
# usage: try_mutant.sh <patch-or-'sed:FILE:EXPR'> -- <command...>
# Applies a change to /repo's working tree, runs the command, and always reverts.
set -u
spec="$1"; shift; [ "$1" = "--" ] && shift
cd /repo || exit 2
if [ -n "$(git status --porcelain --untracked-files=no)" ]; then echo "repo dirty, refusing"; exit 2; fi
if [[ "$spec" == sed:* ]]; then
  IFS=: read -r _ file expr <<<"$spec"
  sed -i -E "$expr" "$file" || exit 2
else
  git apply "$spec" || { echo "patch does not apply"; exit 2; }
fi
git --no-pager diff --stat | tail -1
( cd /verif && "$@" ); rc=$?
git -C /repo checkout -- . 
echo "exit=$rc"
exit $rc
