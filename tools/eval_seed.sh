#!/bin/bash
# usage: eval_seed.sh <patch.diff> <property> [tier]  — applies the patch to /repo, runs the check, reverts
set -u
patch="$1"; prop="$2"; tier="${3:-quick}"
cd /repo || exit 2
[ -z "$(git status --porcelain --untracked-files=no)" ] || { echo "repo dirty"; exit 2; }
git apply "$patch" || { echo "patch does not apply to /repo"; exit 2; }
( cd /verif && ./check "$prop" "$tier" 2>&1 | grep -E "^violation|^VIOLATION|^C1[0-9] |HARNESS|KNOWN-FINDING" | cut -c1-330 | grep -v "^KNOWN" | head -12 ); 
git -C /repo checkout -- .
