#!/bin/bash
# usage: miri_tier.sh <jobs> <runs-per-job>
# Runs heap-sim's workload under Miri (nightly), <jobs> processes side by side, each with its own
# seed derived from VERIF_SEED. Miri is the oracle for undefined behaviour (dangling intern keys,
# invalid union reads); heap-sim's model stays on as well.
# exit 0: no UB, model held; exit 1: model violation or UB reported by Miri; exit 2: Miri unusable.
set -u
jobs="${1:-16}"; runs="${2:-12}"
base="${VERIF_SEED:-20260925}"
VERIF="${VERIF_ROOT:-/verif}"
cd "$VERIF/sim" || exit 2
export CARGO_NET_OFFLINE=true
export MIRIFLAGS="-Zmiri-ignore-leaks -Zmiri-disable-isolation"
log="$VERIF/sim/target-miri/logs"
mkdir -p "$log"
# first invocation builds (and runs 1 run) so that the parallel ones do not race on the build
if ! cargo +nightly miri run --offline -q -p heap-sim --target-dir target-miri -- --miri 1 --miri-seed "$base" >"$log/build.log" 2>&1; then
  if grep -q "Undefined Behavior" "$log/build.log"; then
    echo "violation: Miri reports undefined behaviour in samlang-heap:"; grep -A 25 "Undefined Behavior" "$log/build.log" | head -60
    cp "$log/build.log" $VERIF/replays/C17-miri-$base-build.log
    echo "VIOLATION property=C17 replay=$VERIF/replays/C17-miri-$base-build.log"
    exit 1
  fi
  echo "HARNESS ERROR: cargo +nightly miri run failed:" >&2; tail -30 "$log/build.log" >&2; exit 2
fi
pids=()
for k in $(seq 1 "$jobs"); do
  s=$(( (base * 1000003 + k * 7919) % 4294967291 ))
  ( cargo +nightly miri run --offline -q -p heap-sim --target-dir target-miri -- --miri "$runs" --miri-seed "$s" >"$log/job$k.log" 2>&1; echo "rc=$? seed=$s" >>"$log/job$k.log" ) &
  pids+=($!)
done
wait "${pids[@]}"
rc=0
for k in $(seq 1 "$jobs"); do
  f="$log/job$k.log"
  if grep -q "Undefined Behavior" "$f"; then
    echo "violation: Miri reports undefined behaviour in samlang-heap ($(tail -1 "$f")):"; grep -A 25 "Undefined Behavior" "$f" | head -60
    cp "$f" "$VERIF/replays/C17-miri-$base-job$k.log"
    echo "VIOLATION property=C17 replay=$VERIF/replays/C17-miri-$base-job$k.log"
    rc=1
  elif grep -q "MIRI-TIER violation" "$f"; then
    grep "MIRI-TIER violation" "$f"
    cp "$f" "$VERIF/replays/C17-miri-$base-job$k.log"
    echo "VIOLATION property=C17 replay=$VERIF/replays/C17-miri-$base-job$k.log"
    rc=1
  elif ! grep -q "rc=0" "$f"; then
    echo "HARNESS ERROR: miri job $k failed:" >&2; tail -20 "$f" >&2
    [ $rc -eq 0 ] && rc=2
  fi
done
[ $rc -eq 0 ] && echo "miri tier: $jobs jobs x $runs runs, no undefined behaviour, model held"
exit $rc
