//! xoshiro256** seeded through splitmix64. No dependency, works under Miri.

#[derive(Clone, Copy, Debug)]
pub struct SplitMix64(pub u64);

impl SplitMix64 {
  pub fn next(&mut self) -> u64 {
    self.0 = self.0.wrapping_add(0x9E3779B97F4A7C15);
    let mut z = self.0;
    z = (z ^ (z >> 30)).wrapping_mul(0xBF58476D1CE4E5B9);
    z = (z ^ (z >> 27)).wrapping_mul(0x94D049BB133111EB);
    z ^ (z >> 31)
  }
}

/// mix two integers into one seed (run seed × run index, run seed × stream id, …)
pub fn mix(a: u64, b: u64) -> u64 {
  let mut s = SplitMix64(a ^ b.wrapping_mul(0xD6E8FEB86659FD93).rotate_left(23));
  s.next();
  s.next()
}

#[derive(Clone, Debug)]
pub struct Rng {
  s: [u64; 4],
  /// number of draws, part of event digests so that a divergence in consumption is visible
  pub draws: u64,
}

impl Rng {
  pub fn new(seed: u64) -> Rng {
    let mut sm = SplitMix64(seed);
    let s = [sm.next(), sm.next(), sm.next(), sm.next()];
    Rng { s, draws: 0 }
  }

  pub fn next_u64(&mut self) -> u64 {
    self.draws += 1;
    let result = self.s[1].wrapping_mul(5).rotate_left(7).wrapping_mul(9);
    let t = self.s[1] << 17;
    self.s[2] ^= self.s[0];
    self.s[3] ^= self.s[1];
    self.s[1] ^= self.s[2];
    self.s[0] ^= self.s[3];
    self.s[2] ^= t;
    self.s[3] = self.s[3].rotate_left(45);
    result
  }

  /// uniform in 0..n (n > 0)
  pub fn below(&mut self, n: usize) -> usize {
    debug_assert!(n > 0);
    ((self.next_u64() >> 11) % (n as u64)) as usize
  }

  /// uniform in lo..=hi
  pub fn range(&mut self, lo: usize, hi: usize) -> usize {
    lo + self.below(hi - lo + 1)
  }

  /// true with probability num/den
  pub fn chance(&mut self, num: usize, den: usize) -> bool {
    self.below(den) < num
  }

  pub fn pick<'a, T>(&mut self, xs: &'a [T]) -> &'a T {
    &xs[self.below(xs.len())]
  }

  pub fn shuffle<T>(&mut self, xs: &mut [T]) {
    for i in (1..xs.len()).rev() {
      let j = self.below(i + 1);
      xs.swap(i, j);
    }
  }

  /// pick an index with the given integer weights
  pub fn weighted(&mut self, weights: &[usize]) -> usize {
    let total: usize = weights.iter().sum();
    let mut x = self.below(total.max(1));
    for (i, w) in weights.iter().enumerate() {
      if x < *w {
        return i;
      }
      x -= *w;
    }
    weights.len() - 1
  }
}

/// The independent streams of one run (DESIGN 3.2).
pub const STREAM_WORKLOAD: u64 = 1;
pub const STREAM_FAULTS: u64 = 2;
pub const STREAM_SCHEDULE: u64 = 3;
pub const STREAM_HASH: u64 = 4;

pub fn run_seed(base_seed: u64, run_index: u64) -> u64 {
  mix(base_seed, run_index)
}

pub fn stream(run_seed: u64, stream_id: u64) -> Rng {
  Rng::new(mix(run_seed, stream_id))
}

pub fn verif_seed() -> u64 {
  match std::env::var("VERIF_SEED") {
    Ok(s) => s.trim().parse::<u64>().unwrap_or_else(|_| crate::fnv_str(&s)),
    Err(_) => 20260925,
  }
}
