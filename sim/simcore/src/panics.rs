//! Panic capture. The hook records (file:line, message) of the most recent panic on this thread;
//! `catch` runs a closure under `catch_unwind` and returns the captured record. Nothing is printed
//! for captured panics; panics outside `catch` (harness bugs) are printed and propagate.

use std::cell::{Cell, RefCell};
use std::panic::{catch_unwind, AssertUnwindSafe};
use std::sync::Once;

#[derive(Clone, Debug, PartialEq, Eq)]
pub struct PanicRecord {
  pub file: String,
  pub line: u32,
  pub message: String,
}

impl PanicRecord {
  /// file:line with the path cut down to `<crate>/src/<file>` so it does not depend on where the
  /// repository is checked out.
  pub fn place(&self) -> String {
    let f = &self.file;
    let short = match f.find("crates/") {
      Some(i) => &f[i + "crates/".len()..],
      None => match f.rfind("/src/") {
        Some(i) => {
          let head = &f[..i];
          let start = head.rfind('/').map(|x| x + 1).unwrap_or(0);
          &f[start..]
        }
        None => f.as_str(),
      },
    };
    format!("{}:{}", short, self.line)
  }

  pub fn short_message(&self) -> String {
    let mut s: String = self.message.chars().take(60).collect();
    s = s.replace('\n', " ");
    s
  }
}

thread_local! {
  static CAPTURING: Cell<u32> = const { Cell::new(0) };
  static LAST: RefCell<Option<PanicRecord>> = const { RefCell::new(None) };
}

static INSTALL: Once = Once::new();

pub fn install_hook() {
  INSTALL.call_once(|| {
    let default = std::panic::take_hook();
    std::panic::set_hook(Box::new(move |info| {
      let capturing = CAPTURING.try_with(|c| c.get()).unwrap_or(0) > 0;
      if capturing {
        let (file, line) = match info.location() {
          Some(l) => (l.file().to_string(), l.line()),
          None => ("?".to_string(), 0),
        };
        let message = if let Some(s) = info.payload().downcast_ref::<&str>() {
          s.to_string()
        } else if let Some(s) = info.payload().downcast_ref::<String>() {
          s.clone()
        } else {
          "<non-string panic payload>".to_string()
        };
        let _ = LAST.try_with(|l| *l.borrow_mut() = Some(PanicRecord { file, line, message }));
      } else {
        default(info);
      }
    }));
  });
}

/// Run `f`; a panic inside it is returned as a record instead of unwinding further.
pub fn catch<T>(f: impl FnOnce() -> T) -> Result<T, PanicRecord> {
  install_hook();
  CAPTURING.with(|c| c.set(c.get() + 1));
  LAST.with(|l| *l.borrow_mut() = None);
  let r = catch_unwind(AssertUnwindSafe(f));
  CAPTURING.with(|c| c.set(c.get() - 1));
  match r {
    Ok(v) => Ok(v),
    Err(_) => Err(LAST.with(|l| l.borrow_mut().take()).unwrap_or(PanicRecord {
      file: "?".into(),
      line: 0,
      message: "<panic without record>".into(),
    })),
  }
}

/// Mark the current thread as capturing (used by pool workers, which run SUT code on behalf of a
/// `catch` on the controller thread). Returns the previous depth.
pub fn set_capturing(depth: u32) -> u32 {
  CAPTURING.with(|c| {
    let old = c.get();
    c.set(depth);
    old
  })
}

pub fn capturing_depth() -> u32 {
  CAPTURING.with(|c| c.get())
}

pub fn take_last() -> Option<PanicRecord> {
  LAST.with(|l| l.borrow_mut().take())
}

pub fn set_last(r: Option<PanicRecord>) {
  LAST.with(|l| *l.borrow_mut() = r);
}
