//! Core of the deterministic simulator used by every engine under /verif/sim.
//!
//! * `rng`      — the one PRNG (xoshiro256**) and the seed-splitting discipline (DESIGN 3.2)
//! * `hashseed` — the libc `getrandom` seam: std's `RandomState` keys come from the run's seed
//! * `panics`   — capturing panic hook + `catch` (the C11 oracle, and harness-error separation)
//! * `pool`     — the simulated worker pool behind the `rayon` facade (DESIGN 3.3)
//! * `runner`   — runs many seeded simulations side by side, each on a fresh OS thread
//! * `report`   — evidence files, replay files, known findings, VIOLATION lines
pub mod hashseed;
pub mod panics;
pub mod pool;
pub mod report;
pub mod rng;
pub mod runner;

/// FNV-1a 64 bit, used for event-log digests (determinism audit) and distinct-case counting.
#[derive(Clone, Copy)]
pub struct Fnv(pub u64);

impl Default for Fnv {
  fn default() -> Self {
    Fnv(0xcbf29ce484222325)
  }
}

impl Fnv {
  pub fn new() -> Fnv {
    Fnv::default()
  }
  pub fn bytes(&mut self, b: &[u8]) {
    for x in b {
      self.0 ^= *x as u64;
      self.0 = self.0.wrapping_mul(0x100000001b3);
    }
  }
  pub fn str(&mut self, s: &str) {
    self.bytes(s.as_bytes());
    self.bytes(&[0xff]);
  }
  pub fn u64(&mut self, v: u64) {
    self.bytes(&v.to_le_bytes());
  }
  pub fn finish(&self) -> u64 {
    self.0
  }
}

pub fn fnv_str(s: &str) -> u64 {
  let mut f = Fnv::new();
  f.str(s);
  f.finish()
}

/// Findings F7 (known_findings.json) have one mechanism: names are ordered by `PStr` order, which is
/// content order for names of up to 15 bytes (stored inline), "inline before heap" between a short
/// and a long name, and *heap allocation order* between two names of 16 bytes or more. So the only
/// thing F7 can do to a rendered diagnostic is to swap the relative order of two long names, or to
/// choose another long name where the first of several candidates is shown. Given two renderings of
/// the same diagnostic that are equal in canonical form, this says whether the difference between
/// them is of that kind. If not, the difference is not the recorded finding and gets its own
/// signature.
pub fn explained_by_order_of_long_names(a: &str, b: &str) -> bool {
  fn idents(s: &str) -> Vec<&str> {
    s.split(|c: char| !(c.is_ascii_alphanumeric() || c == '_')).filter(|t| !t.is_empty()).collect()
  }
  let long = |t: &str| t.len() >= 16;
  let (ta, tb) = (idents(a), idents(b));
  let (mut sa, mut sb) = (ta.clone(), tb.clone());
  sa.sort();
  sb.sort();
  if sa == sb {
    // a permutation: every inverted pair must consist of two long names
    let moved: Vec<usize> = (0..ta.len()).filter(|i| ta[*i] != tb[*i]).collect();
    let pos_in_b = |t: &str| moved.iter().copied().find(|j| tb[*j] == t);
    for (x, i) in moved.iter().enumerate() {
      for j in &moved[x + 1..] {
        let (p, q) = (ta[*i], ta[*j]);
        if let (Some(pp), Some(pq)) = (pos_in_b(p), pos_in_b(q)) {
          if pp > pq && !(long(p) && long(q)) {
            return false;
          }
        }
      }
    }
    true
  } else {
    // a different choice: at the first point of difference both names must be long
    let n = ta.len().min(tb.len());
    match (0..n).find(|i| ta[*i] != tb[*i]) {
      Some(i) => long(ta[i]) && long(tb[i]),
      None => false,
    }
  }
}

#[cfg(test)]
mod order_tests {
  use super::explained_by_order_of_long_names as ex;
  #[test]
  fn cases() {
    assert!(ex("- `aVeryLongMemberNameOne`\n- `aVeryLongMemberNameTwo`", "- `aVeryLongMemberNameTwo`\n- `aVeryLongMemberNameOne`"));
    assert!(!ex("- `foo`\n- `aVeryLongMemberNameTwo`", "- `aVeryLongMemberNameTwo`\n- `foo`"));
    assert!(!ex("- `foo`\n- `bar`", "- `bar`\n- `foo`"));
    assert!(ex("x `AVeryLongVariantNameOne(_)`.", "x `AVeryLongVariantNameTwo(Some(_))`."));
    assert!(!ex("x `Circle(None)`.", "x `Square(None)`."));
    assert!(!ex("x `(Amber, Green)`.", "x `(Green, Amber)`."));
    assert!(ex("[aVeryLongMemberNameOne, s, aVeryLongMemberNameTwo]", "[aVeryLongMemberNameTwo, s, aVeryLongMemberNameOne]"));
    assert!(!ex("[aVeryLongMemberNameOne, s, aVeryLongMemberNameTwo]", "[s, aVeryLongMemberNameTwo, aVeryLongMemberNameOne]"));
  }
}
