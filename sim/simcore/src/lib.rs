//! Core of the deterministic simulator used by every engine under /verif/sim.
//!
//! * `rng`      — the one PRNG (xoshiro256**) and the seed-splitting discipline (DESIGN 3.2)
//! * `hashseed` — the libc `getrandom` seam: std's `RandomState` keys come from the run's seed
//! * `panics`   — capturing panic hook + `catch` (the C11 oracle, and harness-error separation)
//! * `pool`     — the simulated worker pool behind the `rayon` facade (DESIGN 3.3)
//! * `runner`   — runs many seeded simulations side by side, each on a fresh OS thread
//! * `report`   — evidence files, replay files, known findings, VIOLATION lines
pub mod hashseed;
pub mod panics;
pub mod pool;
pub mod report;
pub mod rng;
pub mod runner;

/// FNV-1a 64 bit, used for event-log digests (determinism audit) and distinct-case counting.
#[derive(Clone, Copy)]
pub struct Fnv(pub u64);

impl Default for Fnv {
  fn default() -> Self {
    Fnv(0xcbf29ce484222325)
  }
}

impl Fnv {
  pub fn new() -> Fnv {
    Fnv::default()
  }
  pub fn bytes(&mut self, b: &[u8]) {
    for x in b {
      self.0 ^= *x as u64;
      self.0 = self.0.wrapping_mul(0x100000001b3);
    }
  }
  pub fn str(&mut self, s: &str) {
    self.bytes(s.as_bytes());
    self.bytes(&[0xff]);
  }
  pub fn u64(&mut self, v: u64) {
    self.bytes(&v.to_le_bytes());
  }
  pub fn finish(&self) -> u64 {
    self.0
  }
}

pub fn fnv_str(s: &str) -> u64 {
  let mut f = Fnv::new();
  f.str(s);
  f.finish()
}
