//! Evidence files, replay files, known findings and the VIOLATION / KNOWN-FINDING protocol
//! (DESIGN 3.5, 3.7, 7).

use serde_json::{json, Map, Value};
use std::collections::{BTreeMap, BTreeSet};
use std::path::{Path, PathBuf};

pub fn verif_root() -> PathBuf {
  std::env::var("VERIF_ROOT").map(PathBuf::from).unwrap_or_else(|_| PathBuf::from("/verif"))
}

#[derive(Clone, Debug)]
pub struct Violation {
  pub property: String,
  /// specific enough to name one defect and nothing else (DESIGN 7.3)
  pub signature: String,
  pub description: String,
  /// complete replay file content: everything needed to re-execute the minimised run
  pub replay: Value,
}

pub struct KnownFindings {
  /// (property, signature) -> what
  pub open: BTreeMap<(String, String), String>,
}

impl KnownFindings {
  pub fn load() -> KnownFindings {
    let path = verif_root().join("known_findings.json");
    let mut open = BTreeMap::new();
    if let Ok(text) = std::fs::read_to_string(&path) {
      let v: Value = serde_json::from_str(&text).expect("known_findings.json is not valid JSON");
      for e in v.get("open").and_then(|x| x.as_array()).cloned().unwrap_or_default() {
        let p = e["property"].as_str().unwrap_or("").to_string();
        let s = e["signature"].as_str().unwrap_or("").to_string();
        let w = e["what"].as_str().unwrap_or("").to_string();
        open.insert((p, s), w);
      }
    }
    KnownFindings { open }
  }

  pub fn lookup(&self, property: &str, signature: &str) -> Option<&String> {
    self.open.get(&(property.to_string(), signature.to_string()))
  }
}

/// Counters with stable (sorted) output.
#[derive(Default, Clone, Debug)]
pub struct Counters(pub BTreeMap<String, u64>);

impl Counters {
  pub fn add(&mut self, key: &str, n: u64) {
    if n > 0 {
      *self.0.entry(key.to_string()).or_insert(0) += n;
    } else {
      self.0.entry(key.to_string()).or_insert(0);
    }
  }
  pub fn inc(&mut self, key: &str) {
    self.add(key, 1);
  }
  pub fn declare(&mut self, keys: &[&str]) {
    for k in keys {
      self.0.entry(k.to_string()).or_insert(0);
    }
  }
  pub fn merge(&mut self, other: &Counters) {
    for (k, v) in &other.0 {
      *self.0.entry(k.clone()).or_insert(0) += *v;
    }
  }
  pub fn get(&self, key: &str) -> u64 {
    self.0.get(key).copied().unwrap_or(0)
  }
  pub fn to_json(&self) -> Value {
    Value::Object(self.0.iter().map(|(k, v)| (k.clone(), json!(v))).collect::<Map<_, _>>())
  }
}

pub struct Evidence {
  pub property: String,
  pub tier: String,
  pub seed: u64,
  pub evaluations: u64,
  pub distinct: BTreeSet<u64>,
  pub rule: String,
  pub samples: Vec<Value>,
  pub faults_fired: Counters,
  pub probes: Counters,
  pub steps: u64,
  pub extra: Map<String, Value>,
  pub assumptions: Vec<String>,
  pub components: Value,
  pub known_findings_matched: Vec<String>,
  pub violations: u64,
}

impl Evidence {
  pub fn new(property: &str, tier: &str, seed: u64) -> Evidence {
    Evidence {
      property: property.to_string(),
      tier: tier.to_string(),
      seed,
      evaluations: 0,
      distinct: BTreeSet::new(),
      rule: String::new(),
      samples: Vec::new(),
      faults_fired: Counters::default(),
      probes: Counters::default(),
      steps: 0,
      extra: Map::new(),
      assumptions: Vec::new(),
      components: Value::Null,
      known_findings_matched: Vec::new(),
      violations: 0,
    }
  }

  pub fn write(&self, wall_s: f64) {
    let dir = verif_root().join("evidence");
    let _ = std::fs::create_dir_all(&dir);
    let runs_per_hour =
      if wall_s > 0.0 { (self.evaluations as f64 / wall_s * 3600.0).round() } else { 0.0 };
    let mut coverage = Map::new();
    coverage.insert("evaluations".into(), json!(self.evaluations));
    coverage.insert("distinct_nontrivial".into(), json!(self.distinct.len()));
    coverage.insert("rule".into(), json!(self.rule));
    coverage.insert("samples".into(), json!(self.samples));
    coverage.insert("simulated_runs".into(), json!(self.evaluations));
    coverage.insert("simulated_runs_per_hour".into(), json!(runs_per_hour));
    coverage.insert("seeds_per_hour".into(), json!(runs_per_hour));
    coverage.insert(
      "simulated_time".into(),
      json!({"unit": "logical steps (operations + scheduler decisions); samlang has no clock in scope", "steps": self.steps}),
    );
    coverage.insert("fault_kinds_fired".into(), self.faults_fired.to_json());
    coverage.insert("reach_probes".into(), self.probes.to_json());
    coverage.insert("components".into(), self.components.clone());
    coverage.insert("known_findings_matched".into(), json!(self.known_findings_matched));
    for (k, v) in &self.extra {
      coverage.insert(k.clone(), v.clone());
    }
    let doc = json!({
      "property_id": self.property,
      "tier": self.tier,
      "seed": self.seed,
      "level": "exploration",
      "coverage": Value::Object(coverage),
      "assumptions": self.assumptions,
      "wall_s": (wall_s * 1000.0).round() / 1000.0,
      "violations": self.violations,
    });
    let path = dir.join(format!("{}.json", self.property));
    let tmp = dir.join(format!(".{}.json.tmp", self.property));
    std::fs::write(&tmp, serde_json::to_string_pretty(&doc).unwrap() + "\n").expect("write evidence");
    std::fs::rename(&tmp, &path).expect("rename evidence");
  }
}

pub fn write_replay(property: &str, seed: u64, ordinal: usize, replay: &Value) -> PathBuf {
  let dir = verif_root().join("replays");
  let _ = std::fs::create_dir_all(&dir);
  let path = dir.join(format!("{property}-{seed}-{ordinal}.json"));
  std::fs::write(&path, serde_json::to_string_pretty(replay).unwrap() + "\n").expect("write replay");
  path
}

pub fn read_json(path: &Path) -> Value {
  let text = std::fs::read_to_string(path).unwrap_or_else(|e| {
    eprintln!("HARNESS ERROR: cannot read {}: {e}", path.display());
    std::process::exit(2)
  });
  serde_json::from_str(&text).unwrap_or_else(|e| {
    eprintln!("HARNESS ERROR: {} is not JSON: {e}", path.display());
    std::process::exit(2)
  })
}

/// Re-execute a replay file in a fresh process (twice) and require the same signature. Returns
/// Ok(()) when both reproduce; Err(text) is a determinism bug of the harness (exit 2).
pub fn confirm_in_fresh_process(path: &Path, signature: &str, extra_args: &[String]) -> Result<(), String> {
  let exe = std::env::current_exe().map_err(|e| e.to_string())?;
  for attempt in 0..2 {
    let out = std::process::Command::new(&exe)
      .args(extra_args)
      .arg("--replay")
      .arg(path)
      .arg("--print-signature")
      .output()
      .map_err(|e| e.to_string())?;
    let stdout = String::from_utf8_lossy(&out.stdout);
    let found = stdout.lines().any(|l| l.strip_prefix("SIGNATURE ").map(|s| s == signature).unwrap_or(false));
    if !found {
      return Err(format!(
        "replay {} attempt {attempt} did not reproduce signature `{signature}`; got:\n{stdout}\n{}",
        path.display(),
        String::from_utf8_lossy(&out.stderr)
      ));
    }
  }
  Ok(())
}

pub struct Outcome {
  pub exit_code: i32,
  pub unlisted: u64,
  pub known: Vec<String>,
}

/// Classify the (already minimised) violations of one check, write replay files, print the
/// protocol lines. At most one replay per distinct signature.
pub fn conclude(
  property: &str,
  seed: u64,
  violations: Vec<Violation>,
  extra_args: &[String],
) -> Outcome {
  let known = KnownFindings::load();
  let mut seen = BTreeSet::new();
  let mut exit_code = 0;
  let mut unlisted = 0;
  let mut matched = Vec::new();
  let mut ordinal = 0;
  for v in violations {
    if !seen.insert(v.signature.clone()) {
      continue;
    }
    if let Some(what) = known.lookup(property, &v.signature) {
      println!("KNOWN-FINDING: property={property} {} — {what}", v.signature);
      matched.push(v.signature.clone());
      continue;
    }
    let path = write_replay(property, seed, ordinal, &v.replay);
    ordinal += 1;
    match confirm_in_fresh_process(&path, &v.signature, extra_args) {
      Ok(()) => {
        println!("violation: {} — {}", v.signature, v.description);
        println!("VIOLATION property={property} replay={}", path.display());
        exit_code = 1;
        unlisted += 1;
      }
      Err(e) => {
        eprintln!("HARNESS ERROR: {e}");
        if exit_code == 0 {
          exit_code = 2;
        }
      }
    }
  }
  if crate::pool::HARNESS_ERROR.load(std::sync::atomic::Ordering::SeqCst) && exit_code == 0 {
    eprintln!("HARNESS ERROR flag set (pool budget or escaped panic)");
    exit_code = 2;
  }
  if crate::hashseed::UNSEEDED_RUN_THREAD.load(std::sync::atomic::Ordering::SeqCst) && exit_code == 0 {
    eprintln!("HARNESS ERROR: a run thread created a hash map before its hash seed was installed (runs are not reproducible)");
    exit_code = 2;
  }
  Outcome { exit_code, unlisted, known: matched }
}
