//! Seam S1: hash seeds.
//!
//! std obtains the keys of `RandomState` by calling libc's `getrandom` through a weak symbol, once
//! per OS thread. Every harness binary defines that symbol (macro `install_getrandom_shim!`) and
//! forwards to `fill`, which answers from the *run context* of the calling thread: a seed set by
//! `enter` as the thread's first action. Every simulated run executes on a fresh OS thread, and
//! every pool worker it spawns enters a context derived from the run's, so one integer fixes every
//! hash-map iteration order of the run. Threads without a context (the harness itself) get real
//! randomness from the kernel.

use std::cell::Cell;

thread_local! {
  // const-initialised: `fill` is called while std initialises its own thread-local hash keys.
  static CTX: Cell<(bool, u64, u64)> = const { Cell::new((false, 0, 0)) };
  static RUN_THREAD: Cell<bool> = const { Cell::new(false) };
}

/// Set when a run thread asked for hash keys before its context was installed: the keys std caches
/// for that thread are then the kernel's, not the run's, and the run is not reproducible. This
/// happened once (a workload generator built a `Heap` — hash maps — before `enter`): the
/// determinism audit found it, this flag makes every check exit 2 if it ever happens again.
pub static UNSEEDED_RUN_THREAD: std::sync::atomic::AtomicBool = std::sync::atomic::AtomicBool::new(false);

/// First action of every run thread (simcore::runner).
pub fn mark_run_thread() {
  RUN_THREAD.with(|c| c.set(true));
}

/// Set the hash-seed context of the current thread. Must happen before the thread creates its
/// first `HashMap`, i.e. as the first action of a run thread / pool worker.
pub fn enter(seed: u64) {
  CTX.with(|c| c.set((true, seed, 0)));
}

pub fn leave() {
  CTX.with(|c| c.set((false, 0, 0)));
}

/// The context seed of the current thread (pool workers derive theirs from it).
pub fn current() -> Option<u64> {
  CTX.with(|c| {
    let (on, seed, _) = c.get();
    if on { Some(seed) } else { None }
  })
}

/// How many times std asked for random bytes on this thread under a context.
pub fn calls() -> u64 {
  CTX.with(|c| c.get().2)
}

extern "C" {
  fn syscall(num: i64, ...) -> i64;
}

/// Called by the `getrandom` symbol defined in each binary.
///
/// # Safety
/// `buf` must be valid for `len` bytes.
pub unsafe fn fill(buf: *mut u8, len: usize, flags: u32) -> isize {
  let ctx = CTX.try_with(|c| c.get()).unwrap_or((false, 0, 0));
  if ctx.0 {
    let mut sm = crate::rng::SplitMix64(crate::rng::mix(ctx.1, 0x5eed_0000 + ctx.2));
    let mut i = 0;
    while i < len {
      let v = sm.next().to_le_bytes();
      let mut j = 0;
      while j < 8 && i < len {
        *buf.add(i) = v[j];
        i += 1;
        j += 1;
      }
    }
    let _ = CTX.try_with(|c| c.set((true, ctx.1, ctx.2 + 1)));
    len as isize
  } else {
    if RUN_THREAD.try_with(|c| c.get()).unwrap_or(false) {
      UNSEEDED_RUN_THREAD.store(true, std::sync::atomic::Ordering::SeqCst);
    }
    // SYS_getrandom on x86_64
    syscall(318, buf, len, flags) as isize
  }
}

/// Defines the libc-compatible `getrandom` symbol in the binary that invokes it.
#[macro_export]
macro_rules! install_getrandom_shim {
  () => {
    #[cfg(not(miri))]
    #[unsafe(no_mangle)]
    pub unsafe extern "C" fn getrandom(buf: *mut u8, len: usize, flags: u32) -> isize {
      unsafe { $crate::hashseed::fill(buf, len, flags) }
    }
  };
}
