//! Runs many seeded simulations side by side. Each run executes on a *fresh* OS thread so that its
//! `RandomState` keys are drawn anew from the run's hash stream (see `hashseed`), which makes a run
//! a pure function of its seed no matter which harness thread hosts it or what ran there before.

use std::sync::atomic::{AtomicBool, AtomicU64, Ordering};
use std::sync::Mutex;
use std::time::{Duration, Instant};

pub struct RunnerConfig {
  pub runs: u64,
  pub threads: usize,
  pub stack_bytes: usize,
  /// stop handing out new runs after this much wall-clock time (harness-side clock; the
  /// simulations themselves never read a clock)
  pub deadline: Option<Duration>,
}

pub fn harness_threads() -> usize {
  std::env::var("VERIF_THREADS")
    .ok()
    .and_then(|s| s.parse().ok())
    .unwrap_or_else(|| std::thread::available_parallelism().map(|n| n.get()).unwrap_or(8))
}

/// Calls `run(i)` for i in 0..runs (until the deadline), `sink(i, out)` for every finished run
/// (serialised, arbitrary order). `stop` lets the sink end the batch early. Returns the number of
/// runs executed.
pub fn run_many<Out: Send>(
  cfg: &RunnerConfig,
  run: &(dyn Fn(u64) -> Out + Sync),
  sink: &mut (dyn FnMut(u64, Out) + Send),
  stop: &AtomicBool,
) -> u64 {
  let next = AtomicU64::new(0);
  let done = AtomicU64::new(0);
  let sink = Mutex::new(sink);
  let start = Instant::now();
  std::thread::scope(|scope| {
    for _ in 0..cfg.threads.max(1) {
      scope.spawn(|| loop {
        if stop.load(Ordering::Relaxed) {
          break;
        }
        if let Some(d) = cfg.deadline {
          if start.elapsed() > d {
            break;
          }
        }
        let i = next.fetch_add(1, Ordering::Relaxed);
        if i >= cfg.runs {
          break;
        }
        let out = std::thread::scope(|inner| {
          std::thread::Builder::new()
            .stack_size(cfg.stack_bytes)
            .name(format!("simrun-{i}"))
            .spawn_scoped(inner, || {
              crate::hashseed::mark_run_thread();
              run(i)
            })
            .expect("spawn run thread")
            .join()
        });
        match out {
          Ok(out) => {
            let mut s = sink.lock().unwrap();
            (*s)(i, out);
            done.fetch_add(1, Ordering::Relaxed);
          }
          Err(payload) => {
            // a panic that escaped the engine's own capture is a harness bug
            eprintln!("HARNESS ERROR: run {i} panicked outside the guarded region");
            stop.store(true, Ordering::SeqCst);
            crate::pool::HARNESS_ERROR.store(true, Ordering::SeqCst);
            drop(payload);
          }
        }
      });
    }
  });
  done.load(Ordering::Relaxed)
}

/// Run one simulation on a fresh thread (replay, minimisation).
pub fn run_one<Out: Send>(stack_bytes: usize, run: impl FnOnce() -> Out + Send) -> Out {
  std::thread::scope(|inner| {
    std::thread::Builder::new()
      .stack_size(stack_bytes)
      .spawn_scoped(inner, run)
      .expect("spawn run thread")
      .join()
      .expect("run thread panicked outside the guarded region")
  })
}
