//! Seam S2/S3: the simulated worker pool (DESIGN 3.3).
//!
//! A parallel region with `n` jobs and `W` simulated workers runs on `W` real OS threads (real
//! stacks: the compiler recurses deeply), exactly one of which holds the baton at any time. The
//! controller (the thread that opened the region) repeatedly lists the enabled actions — resume a
//! worker parked at a yield point, or start an unstarted job on an idle worker — takes one decision
//! from the run's schedule, records it, hands over the baton and waits until that worker parks
//! again (next yield point, or job end). Two threads never run at once, so the recorded decision
//! list *is* the interleaving and replaying it reproduces the run exactly.
//!
//! With `W == 1` jobs run inline on the controller in an order chosen by the schedule.
//! Without an installed pool (harness threads, fresh-server oracle) regions run inline in input
//! order.

use crate::panics::{self, PanicRecord};
use crate::rng::Rng;
use std::any::Any;
use std::cell::{Cell, RefCell};
use std::sync::atomic::{AtomicBool, AtomicI64, Ordering};
use std::sync::{Condvar, Mutex};
use std::time::Duration;

pub const WORKER_STACK_BYTES: usize = 256 << 20;

/// Set when the pool gives up (decision budget): a harness error, never a violation.
pub static HARNESS_ERROR: AtomicBool = AtomicBool::new(false);

#[derive(Clone, Debug)]
pub enum Policy {
  /// uniform choice among enabled actions; with probability `stick`% keep running the worker that
  /// just yielded
  Uniform { stick: u32 },
  /// PCT-style: random job priorities, run the highest-priority enabled action, lower the running
  /// job's priority at `changes` random decision ordinals
  Pct { changes: u32 },
  /// first enabled action, always (run to completion, input order)
  Fifo,
  /// start a new job whenever a worker is idle, otherwise uniform among parked workers: keeps as
  /// many jobs in flight as there are workers
  Spread,
}

#[derive(Clone, Debug)]
pub enum Schedule {
  Seeded { rng: Rng, policy: Policy },
  /// replay: decisions are taken verbatim; past the end every decision is 0
  Fixed { decisions: Vec<u32>, pos: usize },
}

#[derive(Clone, Debug, Default)]
pub struct PoolStats {
  pub regions: u64,
  pub threaded_regions: u64,
  pub jobs: u64,
  pub decisions: u64,
  /// yield points at which a worker parked
  pub yields: u64,
  /// decisions that resumed a *different* worker than the one that had just yielded, while that one
  /// was still runnable: a preemption actually taken
  pub preemptions: u64,
  pub max_inflight: u64,
  /// regions in which all W workers were busy at the same time
  pub all_workers_busy: u64,
  /// yields caused by the expiry of a quantum (a preemption at a basic-block edge of the system
  /// under test, see `quantum_mean`), as opposed to the explicit yield points of the hooks
  pub quantum_expiries: u64,
  /// a running worker went to sleep inside the system under test (it waits for a lock that a
  /// parked worker holds): the controller took the baton back and ran somebody else
  pub blocked_workers: u64,
  /// a worker preempted at a quantum expiry was kept off the processor for a long stretch of
  /// decisions (a stalled thread: what a loaded machine does to a preempted worker)
  pub stalls: u64,
}

pub struct PoolConfig {
  pub workers: usize,
  pub schedule: Schedule,
  /// 0: workers yield only at the explicit yield points. Otherwise every worker is also preempted
  /// after a number of basic-block edges drawn from the schedule (1..=2*mean) — this needs a build
  /// of the system under test with `-Cpasses=sancov-module … -sanitizer-coverage-trace-pc-guard`;
  /// without it no edge is ever counted and the setting has no effect.
  pub quantum_mean: u64,
}

struct PoolState {
  workers: usize,
  quantum_mean: u64,
  schedule: Schedule,
  log: Vec<u32>,
  stats: PoolStats,
  region_ordinal: u64,
}

thread_local! {
  static POOL: RefCell<Option<PoolState>> = const { RefCell::new(None) };
  static WORKER: Cell<Option<(*const RegionShared, usize)>> = const { Cell::new(None) };
}

// The edge callback of LLVM's SanitizerCoverage (`trace-pc-guard`) and the thread-local it reads are
// written in assembly: anything compiled from Rust in this build is itself instrumented (the pass
// runs before inlining, so even `LocalKey::with` would call back into the callback).
//
//   simcore_quantum_tls        thread-local pointer to the running worker's remaining quantum
//                              (an i64), or null while the thread is not executing a job or is
//                              inside the pool's own code
//   __sanitizer_cov_trace_pc_guard   decrement; at zero clear the pointer and tail-call
//                              simcore_quantum_expired(pointer)
#[cfg(all(target_arch = "x86_64", target_os = "linux"))]
core::arch::global_asm!(
  r#"
  .section .tbss,"awT",@nobits
  .p2align 3
  .type simcore_quantum_tls,@object
  .size simcore_quantum_tls,8
simcore_quantum_tls:
  .zero 8

  .text
  .globl __sanitizer_cov_trace_pc_guard
  .type __sanitizer_cov_trace_pc_guard,@function
__sanitizer_cov_trace_pc_guard:
  movq %fs:simcore_quantum_tls@tpoff, %rax
  testq %rax, %rax
  je 1f
  lock decq (%rax)
  jle 2f
1:
  ret
2:
  movq $0, %fs:simcore_quantum_tls@tpoff
  movq %rax, %rdi
  jmp simcore_quantum_expired

  .globl __sanitizer_cov_trace_pc_guard_init
  .type __sanitizer_cov_trace_pc_guard_init,@function
__sanitizer_cov_trace_pc_guard_init:
  ret

  .globl simcore_set_quantum
  .type simcore_set_quantum,@function
simcore_set_quantum:
  movq %rdi, %fs:simcore_quantum_tls@tpoff
  ret

  .globl simcore_get_quantum
  .type simcore_get_quantum,@function
simcore_get_quantum:
  movq %fs:simcore_quantum_tls@tpoff, %rax
  ret
"#,
  options(att_syntax)
);

#[cfg(all(target_arch = "x86_64", target_os = "linux"))]
extern "C" {
  fn simcore_set_quantum(p: *const AtomicI64);
  fn simcore_get_quantum() -> *const AtomicI64;
}

#[cfg(all(target_arch = "x86_64", target_os = "linux"))]
fn set_quantum(p: *const AtomicI64) -> *const AtomicI64 {
  // SAFETY: plain loads and stores of a thread-local word
  unsafe {
    let old = simcore_get_quantum();
    simcore_set_quantum(p);
    old
  }
}

#[cfg(not(all(target_arch = "x86_64", target_os = "linux")))]
fn set_quantum(_p: *const AtomicI64) -> *const AtomicI64 {
  std::ptr::null()
}

/// Called by the edge callback with the (already cleared) quantum pointer.
#[no_mangle]
pub extern "C" fn simcore_quantum_expired(q: *const AtomicI64) {
  park(true);
  set_quantum(q);
}

pub fn install(cfg: PoolConfig) {
  POOL.with(|p| {
    *p.borrow_mut() = Some(PoolState {
      workers: cfg.workers.max(1),
      quantum_mean: cfg.quantum_mean,
      schedule: cfg.schedule,
      log: Vec::new(),
      stats: PoolStats::default(),
      region_ordinal: 0,
    })
  });
}

pub struct PoolReport {
  pub decisions: Vec<u32>,
  pub stats: PoolStats,
}

pub fn uninstall() -> Option<PoolReport> {
  POOL.with(|p| p.borrow_mut().take()).map(|s| PoolReport { decisions: s.log, stats: s.stats })
}

/// Temporarily run `f` without the pool (used for the fresh-server oracle, whose parallel regions
/// are not part of the simulated run).
pub fn suspended<T>(f: impl FnOnce() -> T) -> T {
  let saved = POOL.with(|p| p.borrow_mut().take());
  let r = f();
  POOL.with(|p| *p.borrow_mut() = saved);
  r
}

fn decide_ex(state: &mut PoolState, n_options: usize, prefer: Option<usize>, prios: Option<&[u64]>, spread_start: bool) -> usize {
  debug_assert!(n_options > 0);
  let d = match &mut state.schedule {
    Schedule::Fixed { decisions, pos } => {
      let d = decisions.get(*pos).copied().unwrap_or(0) as usize;
      *pos += 1;
      if d < n_options { d } else { 0 }
    }
    Schedule::Seeded { rng, policy } => match policy {
      Policy::Fifo => 0,
      Policy::Spread => {
        // by convention the last option is "start" when starting is possible (prefer == None is
        // not a reliable signal, so the caller passes prios = None and n_options includes start)
        if spread_start { n_options - 1 } else { rng.below(n_options) }
      }
      Policy::Uniform { stick } => {
        let stick = *stick as usize;
        match prefer {
          Some(p) if stick > 0 && rng.below(100) < stick => p,
          _ => rng.below(n_options),
        }
      }
      Policy::Pct { .. } => match prios {
        Some(ps) => {
          let mut best = 0;
          for i in 1..n_options {
            if ps[i] > ps[best] {
              best = i;
            }
          }
          best
        }
        None => rng.below(n_options),
      },
    },
  };
  state.log.push(d as u32);
  state.stats.decisions += 1;
  d
}

/// The quantum of the worker that is about to run; part of the decision log, so that a replay
/// preempts at the same edges.
fn next_quantum(state: &mut PoolState) -> i64 {
  if state.quantum_mean == 0 {
    return i64::MAX;
  }
  let q = match &mut state.schedule {
    Schedule::Fixed { decisions, pos } => {
      let d = decisions.get(*pos).copied().unwrap_or(u32::MAX);
      *pos += 1;
      d
    }
    Schedule::Seeded { rng, .. } => 1 + rng.below((2 * state.quantum_mean) as usize) as u32,
  };
  state.log.push(q);
  if q == u32::MAX { i64::MAX } else { q as i64 }
}

/// After a quantum expiry: for how many decisions the preempted worker stays off the processor
/// (0 almost always). Part of the decision log.
fn next_stall(state: &mut PoolState) -> u64 {
  let v = match &mut state.schedule {
    Schedule::Fixed { decisions, pos } => {
      let d = decisions.get(*pos).copied().unwrap_or(0);
      *pos += 1;
      d
    }
    Schedule::Seeded { rng, .. } => {
      if rng.below(40) == 0 { 1 + rng.below(3000) as u32 } else { 0 }
    }
  };
  state.log.push(v);
  v as u64
}

fn decide(state: &mut PoolState, n_options: usize, prefer: Option<usize>, prios: Option<&[u64]>) -> usize {
  decide_ex(state, n_options, prefer, prios, false)
}

#[derive(Clone, Copy, PartialEq, Eq, Debug)]
enum WStatus {
  Idle,
  Running,
  Parked,
  /// asleep inside the system under test while it held the baton (see `blocked_workers`)
  Blocked,
}

#[derive(Clone, Copy, PartialEq, Eq, Debug)]
enum Cmd {
  Run(usize),
  Resume,
  Exit,
}

struct SharedInner {
  /// worker currently holding the baton; None = controller
  running: Option<usize>,
  cmds: Vec<Option<Cmd>>,
  status: Vec<WStatus>,
  current_job: Vec<Option<usize>>,
  /// kernel thread ids of the workers (for `/proc/thread-self/../<tid>/stat`)
  tids: Vec<u64>,
  /// the last park of this worker was a quantum expiry
  by_quantum: Vec<bool>,
}

struct RegionShared {
  inner: Mutex<SharedInner>,
  worker_cv: Vec<Condvar>,
  ctrl_cv: Condvar,
  quantum: Vec<AtomicI64>,
}

fn own_tid() -> u64 {
  std::fs::read_link("/proc/thread-self")
    .ok()
    .and_then(|p| p.file_name().and_then(|n| n.to_str()).and_then(|n| n.parse().ok()))
    .unwrap_or(0)
}

/// 'R', 'S', 'D', … of a thread of this process
fn thread_state(tid: u64) -> Option<char> {
  let stat = std::fs::read_to_string(format!("/proc/self/task/{tid}/stat")).ok()?;
  stat.rsplit_once(") ")?.1.chars().next()
}

/// The yield point reached from SUT code through the repository hook (H1). No-op unless the calling
/// thread is a pool worker.
pub fn yield_point() {
  let q = set_quantum(std::ptr::null());
  park(false);
  set_quantum(q);
}

fn park(by_quantum: bool) {
  if let Some((ptr, k)) = WORKER.with(|w| w.get()) {
    // SAFETY: the region's shared state outlives its scoped worker threads.
    let shared = unsafe { &*ptr };
    let mut g = shared.inner.lock().unwrap();
    if g.status[k] == WStatus::Blocked {
      // the controller took the baton away while this worker slept on a lock; somebody else has
      // it now
      g.status[k] = WStatus::Parked;
      g.by_quantum[k] = false;
      shared.ctrl_cv.notify_one();
    } else {
      g.status[k] = WStatus::Parked;
      g.by_quantum[k] = by_quantum;
      g.running = None;
      shared.ctrl_cv.notify_one();
    }
    loop {
      if g.cmds[k] == Some(Cmd::Resume) {
        g.cmds[k] = None;
        break;
      }
      g = shared.worker_cv[k].wait(g).unwrap();
    }
  }
}

/// `fn(&'static str)` adaptor for the repository hook registry.
pub fn yield_hook(_site: &'static str) {
  yield_point();
}

type JobResult<R> = Result<R, (Box<dyn Any + Send>, Option<PanicRecord>)>;

/// Run `n` jobs; result `i` is `job(i)`. Order-preserving like rayon's indexed `collect`.
pub fn run_region<R: Send>(n: usize, job: &(dyn Fn(usize) -> R + Sync)) -> Vec<R> {
  let is_worker = WORKER.with(|w| w.get().is_some());
  let has_pool = POOL.with(|p| p.borrow().is_some());
  if is_worker || !has_pool || n == 0 {
    return (0..n).map(job).collect();
  }
  let (workers, region_ordinal) = POOL.with(|p| {
    let mut b = p.borrow_mut();
    let s = b.as_mut().unwrap();
    s.stats.regions += 1;
    s.stats.jobs += n as u64;
    s.region_ordinal += 1;
    (s.workers, s.region_ordinal)
  });
  let w_eff = workers.min(n);
  if w_eff <= 1 {
    // inline, order chosen by the schedule
    let mut remaining: Vec<usize> = (0..n).collect();
    let mut results: Vec<Option<R>> = (0..n).map(|_| None).collect();
    while !remaining.is_empty() {
      let d = if remaining.len() == 1 {
        0
      } else {
        POOL.with(|p| decide(p.borrow_mut().as_mut().unwrap(), remaining.len(), None, None))
      };
      let j = remaining.remove(d);
      // the pool is not borrowed while the job runs (nested regions re-enter run_region)
      results[j] = Some(job(j));
    }
    return results.into_iter().map(|r| r.unwrap()).collect();
  }

  // threaded region
  POOL.with(|p| p.borrow_mut().as_mut().unwrap().stats.threaded_regions += 1);
  let shared = RegionShared {
    inner: Mutex::new(SharedInner {
      running: None,
      cmds: vec![None; w_eff],
      status: vec![WStatus::Idle; w_eff],
      current_job: vec![None; w_eff],
      tids: vec![0; w_eff],
      by_quantum: vec![false; w_eff],
    }),
    worker_cv: (0..w_eff).map(|_| Condvar::new()).collect(),
    ctrl_cv: Condvar::new(),
    quantum: (0..w_eff).map(|_| AtomicI64::new(i64::MAX)).collect(),
  };
  let results: Vec<Mutex<Option<JobResult<R>>>> = (0..n).map(|_| Mutex::new(None)).collect();
  let parent_hash = crate::hashseed::current();
  let capture_depth = panics::capturing_depth();
  let shared_ref = &shared;
  let results_ref = &results;

  // PCT bookkeeping (only used under Policy::Pct)
  let (mut job_prio, mut change_points): (Vec<u64>, Vec<u64>) = POOL.with(|p| {
    let mut b = p.borrow_mut();
    let s = b.as_mut().unwrap();
    match &mut s.schedule {
      Schedule::Seeded { rng, policy: Policy::Pct { changes } } => {
        let prios = (0..n).map(|_| (rng.next_u64() >> 1) | (1 << 62)).collect();
        let est = 64 + 40 * n as u64;
        let cps = (0..*changes).map(|_| rng.next_u64() % est).collect();
        (prios, cps)
      }
      _ => (Vec::new(), Vec::new()),
    }
  });
  change_points.sort();
  let mut region_decisions: u64 = 0;
  let mut low_prio_next: u64 = 1 << 20;

  std::thread::scope(|scope| {
    for k in 0..w_eff {
      std::thread::Builder::new()
        .stack_size(WORKER_STACK_BYTES)
        .name(format!("simpool-{region_ordinal}-{k}"))
        .spawn_scoped(scope, move || {
          if let Some(h) = parent_hash {
            crate::hashseed::enter(crate::rng::mix(h, region_ordinal * 64 + k as u64 + 1));
          }
          panics::set_capturing(capture_depth);
          WORKER.with(|w| w.set(Some((shared_ref as *const RegionShared, k))));
          shared_ref.inner.lock().unwrap().tids[k] = own_tid();
          loop {
            let cmd = {
              let mut g = shared_ref.inner.lock().unwrap();
              loop {
                if let Some(c) = g.cmds[k].take() {
                  break c;
                }
                g = shared_ref.worker_cv[k].wait(g).unwrap();
              }
            };
            match cmd {
              Cmd::Exit => break,
              Cmd::Resume => unreachable!("resume of a worker that is not parked"),
              Cmd::Run(j) => {
                set_quantum(&shared_ref.quantum[k] as *const AtomicI64);
                let r = std::panic::catch_unwind(std::panic::AssertUnwindSafe(|| job(j)));
                set_quantum(std::ptr::null());
                let r = match r {
                  Ok(v) => Ok(v),
                  Err(payload) => Err((payload, panics::take_last())),
                };
                *results_ref[j].lock().unwrap() = Some(r);
                if shared_ref.inner.lock().unwrap().status[k] == WStatus::Blocked {
                  // woke up and finished without the baton: wait for it before reporting
                  park(false);
                }
                let mut g = shared_ref.inner.lock().unwrap();
                g.status[k] = WStatus::Idle;
                g.current_job[k] = None;
                g.running = None;
                shared_ref.ctrl_cv.notify_one();
              }
            }
          }
          WORKER.with(|w| w.set(None));
        })
        .expect("spawn pool worker");
    }

    // controller
    let mut unstarted: Vec<usize> = (0..n).collect();
    let mut last_ran: Option<usize> = None;
    let mut stalled_until: Vec<u64> = vec![0; w_eff];
    let budget = (n as u64) * 10_000 + 4_000_000;
    loop {
      let mut g = shared.inner.lock().unwrap();
      while g.running.is_some() {
        g = shared.ctrl_cv.wait(g).unwrap();
      }
      let all_parked: Vec<usize> = (0..w_eff).filter(|k| g.status[*k] == WStatus::Parked).collect();
      let idle: Vec<usize> = (0..w_eff).filter(|k| g.status[*k] == WStatus::Idle).collect();
      // stalled workers are not offered, unless nothing else can run
      let awake: Vec<usize> = all_parked.iter().copied().filter(|k| stalled_until[*k] <= region_decisions).collect();
      let parked: Vec<usize> =
        if awake.is_empty() && (unstarted.is_empty() || idle.is_empty()) { all_parked } else { awake };
      let inflight = (w_eff - idle.len()) as u64;
      let can_start = !unstarted.is_empty() && !idle.is_empty();
      if parked.is_empty() && !can_start {
        if g.status.iter().any(|s| *s == WStatus::Blocked) {
          // a blocked worker wakes up once the lock it waits for is released, and parks at its
          // first edge; until then there is nothing to decide
          let waited_since = std::time::Instant::now();
          while !g.status.iter().any(|s| *s == WStatus::Parked) {
            let (g2, _) = shared.ctrl_cv.wait_timeout(g, Duration::from_millis(5)).unwrap();
            g = g2;
            if waited_since.elapsed() > Duration::from_secs(30) {
              // every worker is asleep: a deadlock inside the system under test (or a lock held
              // by a thread the pool does not know). The scope cannot be left any more.
              eprintln!("HARNESS ERROR: all simulated workers are blocked");
              std::process::exit(2);
            }
          }
          continue;
        }
        debug_assert!(unstarted.is_empty());
        break;
      }
      if region_decisions > budget {
        HARNESS_ERROR.store(true, Ordering::SeqCst);
        // let everything run to completion in FIFO order so that the scope can be left
        POOL.with(|p| {
          p.borrow_mut().as_mut().unwrap().schedule = Schedule::Fixed { decisions: vec![], pos: 0 }
        });
      }
      // options: resume parked[0..], then (if possible) start
      let n_options = parked.len() + usize::from(can_start);
      let prefer = last_ran.and_then(|l| parked.iter().position(|p| *p == l));
      let prios: Option<Vec<u64>> = if job_prio.is_empty() {
        None
      } else {
        while let Some(cp) = change_points.first().copied() {
          if cp <= region_decisions {
            change_points.remove(0);
            if let Some(l) = last_ran {
              if let Some(j) = g.current_job[l] {
                low_prio_next -= 1;
                job_prio[j] = low_prio_next;
              }
            }
          } else {
            break;
          }
        }
        let mut v: Vec<u64> = parked.iter().map(|k| job_prio[g.current_job[*k].unwrap()]).collect();
        if can_start {
          v.push(unstarted.iter().map(|j| job_prio[*j]).max().unwrap());
        }
        Some(v)
      };
      let (d, stats_inflight) = POOL.with(|p| {
        let mut b = p.borrow_mut();
        let s = b.as_mut().unwrap();
        let d = if n_options == 1 { 0 } else { decide_ex(s, n_options, prefer, prios.as_deref(), can_start) };
        (d, inflight)
      });
      region_decisions += 1;
      let target;
      if d < parked.len() {
        target = parked[d];
        if let Some(l) = last_ran {
          if l != target && g.status[l] == WStatus::Parked {
            POOL.with(|p| p.borrow_mut().as_mut().unwrap().stats.preemptions += 1);
          }
        }
        g.cmds[target] = Some(Cmd::Resume);
      } else {
        // start: which job, on which idle worker
        let (ji, wi) = POOL.with(|p| {
          let mut b = p.borrow_mut();
          let s = b.as_mut().unwrap();
          let ji = if unstarted.len() == 1 {
            0
          } else if !job_prio.is_empty() && matches!(s.schedule, Schedule::Seeded { .. }) {
            let mut best = 0;
            for i in 1..unstarted.len() {
              if job_prio[unstarted[i]] > job_prio[unstarted[best]] {
                best = i;
              }
            }
            s.log.push(best as u32);
            s.stats.decisions += 1;
            best
          } else {
            decide(s, unstarted.len(), None, None)
          };
          let wi = if idle.len() == 1 { 0 } else { decide(s, idle.len(), None, None) };
          (ji, wi)
        });
        let j = unstarted.remove(ji);
        target = idle[wi];
        if let Some(l) = last_ran {
          if l != target && g.status[l] == WStatus::Parked {
            POOL.with(|p| p.borrow_mut().as_mut().unwrap().stats.preemptions += 1);
          }
        }
        g.current_job[target] = Some(j);
        g.cmds[target] = Some(Cmd::Run(j));
        POOL.with(|p| {
          let mut b = p.borrow_mut();
          let s = b.as_mut().unwrap();
          let now = stats_inflight + 1;
          if now > s.stats.max_inflight {
            s.stats.max_inflight = now;
          }
          if now as usize == w_eff && w_eff == workers {
            s.stats.all_workers_busy += 1;
          }
        });
      }
      let q = POOL.with(|p| next_quantum(p.borrow_mut().as_mut().unwrap()));
      shared.quantum[target].store(q, Ordering::Relaxed);
      g.status[target] = WStatus::Running;
      g.running = Some(target);
      last_ran = Some(target);
      shared.worker_cv[target].notify_one();
      // wait for the baton to come back
      let mut asleep = 0;
      while g.running.is_some() {
        let (g2, timeout) = shared.ctrl_cv.wait_timeout(g, Duration::from_millis(20)).unwrap();
        g = g2;
        if g.running.is_some() && timeout.timed_out() {
          // Only one thread runs. If it sleeps, it waits for something that only a parked worker
          // can give it (a lock of the system under test held across a preemption).
          asleep = if thread_state(g.tids[target]) == Some('S') { asleep + 1 } else { 0 };
          if asleep >= 3 {
            g.status[target] = WStatus::Blocked;
            g.running = None;
            // it parks at its first edge after waking up
            shared.quantum[target].store(1, Ordering::Relaxed);
            POOL.with(|p| p.borrow_mut().as_mut().unwrap().stats.blocked_workers += 1);
          }
        }
      }
      if g.status[target] == WStatus::Parked {
        let by_quantum = g.by_quantum[target];
        POOL.with(|p| {
          let mut b = p.borrow_mut();
          let s = b.as_mut().unwrap();
          s.stats.yields += 1;
          if by_quantum {
            s.stats.quantum_expiries += 1;
            let stall = next_stall(s);
            if stall > 0 {
              s.stats.stalls += 1;
              stalled_until[target] = region_decisions + stall;
            }
          }
        });
      }
    }
    let mut g = shared.inner.lock().unwrap();
    for k in 0..w_eff {
      g.cmds[k] = Some(Cmd::Exit);
      shared.worker_cv[k].notify_one();
    }
  });

  let mut out = Vec::with_capacity(n);
  let mut first_panic: Option<(Box<dyn Any + Send>, Option<PanicRecord>)> = None;
  for slot in results {
    match slot.into_inner().unwrap().expect("job did not run") {
      Ok(v) => out.push(v),
      Err(e) => {
        if first_panic.is_none() {
          first_panic = Some(e);
        }
      }
    }
  }
  if let Some((payload, record)) = first_panic {
    panics::set_last(record);
    std::panic::resume_unwind(payload);
  }
  out
}
