//! heap-sim — engine for C17 (DESIGN 4.1).
//!
//! System under test: `samlang_heap::Heap`, `PStr`, `ModuleReference`, through the public API only.
//! Three actors — mutator, marker, collector — are interleaved one operation at a time by the
//! workload stream; a reference model plus stepwise invariants is the oracle.
//!
//! usage: heap-sim [--tier quick|thorough] [--runs N] [--seconds S] [--replay FILE [--print-signature]]
//!                 [--digests FILE] [--miri RUNS]

use samlang_heap::{Heap, ModuleReference, PStr};
use serde_json::{json, Value};
use simcore::report::{Counters, Evidence, Violation};
use simcore::rng::{self, Rng};
use simcore::{panics, Fnv};
use std::collections::{BTreeSet, HashMap};
use std::hash::{Hash, Hasher};
use std::sync::atomic::AtomicBool;
use std::sync::Mutex;

simcore::install_getrandom_shim!();

const PROPERTY: &str = "C17";
/// thorough tier: a quarter of the runs are 60..240 operations long
static DEEP: AtomicBool = AtomicBool::new(false);

// ------------------------------------------------------------------------------------------------
// operations

#[derive(Clone, Debug, PartialEq)]
enum Op {
  /// alloc_string(String)
  Alloc(String),
  /// alloc_str_for_test(&'static str) — static / promotion path
  AllocStatic(String),
  /// alloc_temp_str()
  AllocTemp,
  /// create_temp_counter, n × alloc_temp_str on it, sync_temp_counter
  TempCounter(usize),
  /// the same three calls as separate operations, so that anything can happen in between (the
  /// optimizer syncs right after its parallel section, the API does not require it)
  CounterCreate,
  CounterAlloc,
  CounterSync,
  /// alloc_string each part, then alloc_module_reference(parts)
  ModRef(Vec<String>),
  /// alloc_module_reference_from_string_vec(parts)
  ModRefFromStrings(Vec<String>),
  /// get_allocated_module_reference_opt(parts)
  GetModRef(Vec<String>),
  /// add_unmarked_module_reference (skipped when the module reference is unknown to the model)
  AddUnmarked(Vec<String>),
  Pop,
  /// mark(handle of this string held by the mutator); skipped when it holds none
  Mark(String),
  Sweep(usize),
}

impl Op {
  fn kind(&self) -> &'static str {
    match self {
      Op::Alloc(_) => "alloc",
      Op::AllocStatic(_) => "alloc_static",
      Op::AllocTemp => "alloc_temp",
      Op::TempCounter(_) => "temp_counter",
      Op::CounterCreate => "counter_create",
      Op::CounterAlloc => "counter_alloc",
      Op::CounterSync => "counter_sync",
      Op::ModRef(_) => "modref",
      Op::ModRefFromStrings(_) => "modref_from_strings",
      Op::GetModRef(_) => "get_modref",
      Op::AddUnmarked(_) => "add_unmarked",
      Op::Pop => "pop",
      Op::Mark(_) => "mark",
      Op::Sweep(_) => "sweep",
    }
  }

  fn to_json(&self) -> Value {
    match self {
      Op::Alloc(s) => json!({"op": "alloc", "s": s}),
      Op::AllocStatic(s) => json!({"op": "alloc_static", "s": s}),
      Op::AllocTemp => json!({"op": "alloc_temp"}),
      Op::TempCounter(n) => json!({"op": "temp_counter", "n": n}),
      Op::CounterCreate => json!({"op": "counter_create"}),
      Op::CounterAlloc => json!({"op": "counter_alloc"}),
      Op::CounterSync => json!({"op": "counter_sync"}),
      Op::ModRef(p) => json!({"op": "modref", "parts": p}),
      Op::ModRefFromStrings(p) => json!({"op": "modref_from_strings", "parts": p}),
      Op::GetModRef(p) => json!({"op": "get_modref", "parts": p}),
      Op::AddUnmarked(p) => json!({"op": "add_unmarked", "parts": p}),
      Op::Pop => json!({"op": "pop"}),
      Op::Mark(s) => json!({"op": "mark", "s": s}),
      Op::Sweep(u) => json!({"op": "sweep", "unit": u}),
    }
  }

  fn from_json(v: &Value) -> Op {
    let s = || v["s"].as_str().expect("op.s").to_string();
    let parts = || {
      v["parts"].as_array().expect("op.parts").iter().map(|x| x.as_str().unwrap().to_string()).collect::<Vec<_>>()
    };
    match v["op"].as_str().expect("op.op") {
      "alloc" => Op::Alloc(s()),
      "alloc_static" => Op::AllocStatic(s()),
      "alloc_temp" => Op::AllocTemp,
      "temp_counter" => Op::TempCounter(v["n"].as_u64().unwrap() as usize),
      "counter_create" => Op::CounterCreate,
      "counter_alloc" => Op::CounterAlloc,
      "counter_sync" => Op::CounterSync,
      "modref" => Op::ModRef(parts()),
      "modref_from_strings" => Op::ModRefFromStrings(parts()),
      "get_modref" => Op::GetModRef(parts()),
      "add_unmarked" => Op::AddUnmarked(parts()),
      "pop" => Op::Pop,
      "mark" => Op::Mark(s()),
      "sweep" => Op::Sweep(v["unit"].as_u64().unwrap() as usize),
      other => panic!("unknown op {other}"),
    }
  }
}

// ------------------------------------------------------------------------------------------------
// string pool: around the 15/16-byte inline boundary, shared prefixes, multi-byte, odd tails

fn string_pool() -> Vec<String> {
  let mut v: Vec<String> = vec![
    "".into(),
    "a".into(),
    "Str".into(),
    "fifteen_bytes_x".into(),            // 15 → inline
    "sixteen_bytes_xy".into(),           // 16 → table
    "sixteen_bytes_xz".into(),           // 16, shares 15-byte prefix with the one above
    "seventeen_bytes_x".into(),          // 17
    "fourteen_chars\u{e9}".into(),       // 14 chars + 2-byte é = 16 bytes
    "thirteen_char\u{e9}".into(),        // 15 bytes with a multi-byte tail → inline
    "fourteen_bytes\u{7f}".into(),       // 15 bytes ending in DEL
    "a_string_that_is_intentionally_very_long".into(),
    "a_string_that_is_intentionally_very_long_2".into(),
    "another_quite_long_identifier_name".into(),
    "LongModuleNamePartNumberOne".into(),
    "LongModuleNamePartNumberTwo".into(),
    "std".into(),
    "tuples".into(),
    "DUMMY".into(),
    "_t3".into(),
    "0123456789abcdefFEDCBA9876543210".into(),
  ];
  // the only inline bit pattern whose size byte is 15 and whose middle is all zero: aliases a tagged
  // heap id if the tag byte were ever a valid UTF-8 tail
  let mut odd = "\0".repeat(14);
  odd.push('\u{7f}');
  v.push(odd);
  v.push("\0\0\0\0\0\0\0\0\0\0\0\0\0\0\0\0".into()); // 16 NULs → table
  v.push(" ".repeat(16));
  v.push("x".repeat(64));
  v
}

fn sweep_units(rng: &mut Rng, table_len_guess: usize) -> usize {
  match rng.below(10) {
    0 => 0,
    1 => 1,
    2 => 2,
    3 => 3,
    4 => table_len_guess.saturating_sub(1),
    5 => table_len_guess,
    6 => table_len_guess + 1,
    7 => 10_000,
    8 => rng.range(1, table_len_guess.max(1)),
    _ => rng.range(1, 5),
  }
}

// ------------------------------------------------------------------------------------------------
// workload generation

#[derive(Clone, Debug)]
struct Knobs {
  mode: &'static str, // "free" | "protocol"
  n_ops: usize,
  hash_seed: u64,
}

fn gen_parts(rng: &mut Rng, pool: &[String]) -> Vec<String> {
  let n = rng.weighted(&[1, 4, 4, 2]);
  (0..n).map(|_| rng.pick(pool).clone()).collect()
}

fn generate_free(rng: &mut Rng, n_ops: usize) -> Vec<Op> {
  let pool = string_pool();
  // per-run sub-pool so that re-allocation of equal / live / marked / swept / reclaimed strings
  // all happen often
  let k = rng.range(3, 10);
  let mut sub: Vec<String> = (0..k).map(|_| rng.pick(&pool).clone()).collect();
  if rng.chance(3, 4) {
    // bias to long strings: the interesting slots
    for s in pool.iter().filter(|s| s.len() >= 16).take(rng.range(2, 6)) {
      sub.push(s.clone());
    }
  }
  let mut modrefs: Vec<Vec<String>> = vec![vec![], vec!["DUMMY".into()], vec!["std".into(), "tuples".into()]];
  let mut ops = Vec::new();
  let mut table_guess = 0usize;
  // per-run weights (swarm): some runs never pop, some never mark, …
  let mut w = [12usize, 4, 1, 3, 3, 2, 1, 3, 4, 8, 10];
  for x in w.iter_mut() {
    if rng.chance(1, 6) {
      *x = 0;
    } else if rng.chance(1, 4) {
      *x *= 3;
    }
  }
  if w.iter().sum::<usize>() == 0 {
    w[0] = 1;
    w[10] = 1;
  }
  while ops.len() < n_ops {
    let op = match rng.weighted(&w) {
      0 => {
        table_guess += 1;
        Op::Alloc(rng.pick(&sub).clone())
      }
      1 => {
        table_guess += 1;
        Op::AllocStatic(rng.pick(&sub).clone())
      }
      2 => {
        table_guess += 1;
        Op::AllocTemp
      }
      3 => match rng.below(5) {
        0 => {
          let n = rng.below(4);
          table_guess += n;
          Op::TempCounter(n)
        }
        1 => Op::CounterCreate,
        2 | 3 => Op::CounterAlloc,
        _ => Op::CounterSync,
      },
      4 => {
        let parts = if rng.chance(1, 3) { rng.pick(&modrefs).clone() } else { gen_parts(rng, &sub) };
        table_guess += parts.len();
        modrefs.push(parts.clone());
        Op::ModRef(parts)
      }
      5 => {
        let parts = if rng.chance(1, 3) { rng.pick(&modrefs).clone() } else { gen_parts(rng, &sub) };
        table_guess += parts.len();
        modrefs.push(parts.clone());
        Op::ModRefFromStrings(parts)
      }
      6 => {
        let parts = if rng.chance(2, 3) { rng.pick(&modrefs).clone() } else { gen_parts(rng, &sub) };
        Op::GetModRef(parts)
      }
      7 => Op::AddUnmarked(rng.pick(&modrefs).clone()),
      8 => Op::Pop,
      9 => Op::Mark(rng.pick(&sub).clone()),
      _ => Op::Sweep(sweep_units(rng, table_guess)),
    };
    ops.push(op);
  }
  ops
}

/// The way services/gc.rs uses the heap: "modules" own handle sets, an "edit" replaces one
/// module's set, a GC round = add all modules, pop and mark k of them, sweep u.
fn generate_protocol(rng: &mut Rng, n_ops: usize) -> Vec<Op> {
  let pool = string_pool();
  let longs: Vec<String> = pool.iter().filter(|s| s.len() >= 16).cloned().collect();
  let n_modules = rng.range(1, 4);
  let module_names: Vec<Vec<String>> = (0..n_modules)
    .map(|i| {
      if rng.chance(1, 2) {
        vec![format!("M{i}")]
      } else {
        vec![rng.pick(&longs).clone(), format!("Part{i}")]
      }
    })
    .collect();
  let slice = *rng.pick(&[1usize, 2, 3, 100]);
  let unit_choices = [1usize, 2, 3, 5, 17, 100, 10_000];
  let unit = *rng.pick(&unit_choices);
  let mut owned: Vec<Vec<String>> = vec![Vec::new(); n_modules];
  let mut ops = Vec::new();
  for m in &module_names {
    ops.push(Op::ModRefFromStrings(m.clone()));
  }
  // which modules still wait to be marked (the model of gc.rs's loop; the heap decides pop order,
  // so the generator marks *every* module's strings whenever it pops — conservative like gc.rs,
  // which marks the popped module: here we do not know which one was popped at generation time, so
  // the protocol marks all strings of all modules before the pops; that keeps every owned string
  // protected, which is the protocol's promise)
  while ops.len() < n_ops {
    // an edit: replace one module's set
    let m = rng.below(n_modules);
    let k = rng.range(0, 4);
    owned[m] = (0..k).map(|_| rng.pick(&longs).clone()).collect();
    for s in &owned[m] {
      ops.push(Op::Alloc(s.clone()));
    }
    if rng.chance(1, 8) {
      ops.push(Op::AllocStatic(rng.pick(&longs).clone()));
    }
    // GC round
    for name in &module_names {
      ops.push(Op::AddUnmarked(name.clone()));
    }
    let mut marked = 0;
    for (i, _) in module_names.iter().enumerate() {
      if marked >= slice {
        break;
      }
      // mark before pop: gc.rs pops then marks, but both happen before the sweep of the slice
      for s in owned.iter().flatten() {
        ops.push(Op::Mark(s.clone()));
      }
      ops.push(Op::Pop);
      marked += 1;
      let _ = i;
    }
    let u = if rng.chance(1, 5) { *rng.pick(&unit_choices) } else { unit };
    ops.push(Op::Sweep(u));
  }
  ops
}

fn generate(run_seed: u64) -> (Knobs, Vec<Op>) {
  let mut w = rng::stream(run_seed, rng::STREAM_WORKLOAD);
  let mut h = rng::stream(run_seed, rng::STREAM_HASH);
  let protocol = w.chance(1, 3);
  let deep = DEEP.load(std::sync::atomic::Ordering::Relaxed) && w.chance(1, 4);
  let n_ops = if deep { w.range(60, 240) } else { w.range(5, 60) };
  let ops = if protocol { generate_protocol(&mut w, n_ops) } else { generate_free(&mut w, n_ops) };
  (Knobs { mode: if protocol { "protocol" } else { "free" }, n_ops: ops.len(), hash_seed: h.next_u64() }, ops)
}

// ------------------------------------------------------------------------------------------------
// model + oracle

#[derive(Clone, Debug)]
struct HandleRec {
  pstr: PStr,
  string: String,
  live: bool,
  /// ghost: static, promoted, or part of a module reference
  permanent: bool,
  /// ghost: marked since the sweeper last passed over it
  protected: bool,
  inline: bool,
}

struct Model {
  handles: Vec<HandleRec>,
  by_pstr: HashMap<PStr, usize>,
  live_by_string: HashMap<String, usize>,
  modrefs: Vec<(ModuleReference, Vec<String>)>,
  unmarked: BTreeSet<usize>,
  temp_names: BTreeSet<String>,
}

#[derive(Default)]
struct RunStats {
  faults: Counters,
  probes: Counters,
  steps: u64,
  reclaimed: u64,
  realloc_after_reclaim: u64,
  promotions: u64,
  consecutive_partial: u64,
}

struct Failure {
  invariant: &'static str,
  op_index: usize,
  op_kind: &'static str,
  detail: String,
}

impl Failure {
  fn signature(&self) -> String {
    format!("{}|{}", self.invariant, self.op_kind)
  }
}

fn hash_of(p: &PStr) -> u64 {
  // fixed-key hasher: the comparison is between two handles under the same hasher
  #[allow(deprecated)]
  let mut h = std::hash::SipHasher::new_with_keys(1, 2);
  p.hash(&mut h);
  h.finish()
}

fn unused_count(heap: &Heap) -> (usize, usize) {
  // "Total slots: {}. Total used: {}. Total unused: {}"
  let s = heap.stat();
  let nums: Vec<usize> =
    s.split(|c: char| !c.is_ascii_digit()).filter(|t| !t.is_empty()).map(|t| t.parse().unwrap()).collect();
  (nums[0], nums[2])
}

fn unmarked_set(heap: &Heap) -> BTreeSet<String> {
  let s = heap.debug_unmarked_strings();
  if s.is_empty() {
    // ambiguity: no unmarked strings, or one unmarked empty string; the empty string is inline and
    // never in the table, so this is "none"
    BTreeSet::new()
  } else {
    s.split('\n').map(|x| x.to_string()).collect()
  }
}

fn readable(heap: &Heap, p: &PStr) -> Result<String, panics::PanicRecord> {
  panics::catch(|| p.as_str(heap).to_string())
}

struct Exec<'a> {
  heap: Heap,
  model: Model,
  stats: RunStats,
  digest: Fnv,
  kind_digest: Fnv,
  trace: Option<&'a mut Vec<Value>>,
  /// the temp-name counter currently held by the mutator (CounterCreate / CounterAlloc / CounterSync)
  counter: Option<samlang_heap::TempPStrCounter>,
}

macro_rules! fail {
  ($inv:expr, $i:expr, $op:expr, $($arg:tt)*) => {
    return Err(Failure { invariant: $inv, op_index: $i, op_kind: $op.kind(), detail: format!($($arg)*) })
  };
}

impl<'a> Exec<'a> {
  fn new() -> Exec<'a> {
    let heap = Heap::new();
    let mut model = Model {
      handles: Vec::new(),
      by_pstr: HashMap::new(),
      live_by_string: HashMap::new(),
      modrefs: Vec::new(),
      unmarked: BTreeSet::new(),
      temp_names: BTreeSet::new(),
    };
    model.modrefs.push((ModuleReference::ROOT, vec![]));
    model.modrefs.push((ModuleReference::DUMMY, vec!["DUMMY".into()]));
    model.modrefs.push((ModuleReference::STD_TUPLES, vec!["std".into(), "tuples".into()]));
    Exec {
      heap,
      model,
      stats: RunStats::default(),
      digest: Fnv::new(),
      kind_digest: Fnv::new(),
      trace: None,
      counter: None,
    }
  }

  /// Record a handle returned by an allocation of `s`; checks I1 / I4 for it.
  fn observe_alloc(&mut self, i: usize, op: &Op, s: &str, p: PStr, makes_permanent: bool) -> Result<&'static str, Failure> {
    // the handle must read back the string
    match readable(&self.heap, &p) {
      Ok(got) if got == s => {}
      Ok(got) => fail!("readback", i, op, "allocated {:?} but the handle reads {:?}", s, got),
      Err(pr) => fail!("readback", i, op, "allocated {:?} but reading the fresh handle panics: {}", s, pr.message),
    }
    let class;
    if let Some(&idx) = self.model.live_by_string.get(s) {
      let rec = &mut self.model.handles[idx];
      if rec.pstr != p {
        fail!("injective", i, op, "string {:?} is live with handle {:?} but allocation returned a different handle {:?}", s, rec.pstr, p);
      }
      if hash_of(&rec.pstr) != hash_of(&p) || rec.pstr.cmp(&p) != std::cmp::Ordering::Equal {
        fail!("injective", i, op, "equal handles of {:?} hash or order differently", s);
      }
      if makes_permanent && !rec.permanent {
        if !rec.inline {
          self.stats.promotions += 1;
          if rec.protected {
            self.stats.probes.inc("promote_marked_temporary");
          } else {
            self.stats.probes.inc("promote_unmarked_temporary");
          }
        }
        rec.permanent = true;
      }
      class = "existing";
    } else {
      // must be fresh: not equal to any live handle (of necessarily different strings)
      if let Some(&idx) = self.model.by_pstr.get(&p) {
        let rec = &self.model.handles[idx];
        if rec.live {
          fail!("injective", i, op, "allocation of {:?} returned handle {:?} which is live for the different string {:?}", s, p, rec.string);
        }
        // a dead handle value handed out again (slot reuse): legitimate, the record is revived
        let inline = s.len() <= 15;
        self.model.handles[idx] =
          HandleRec { pstr: p, string: s.to_string(), live: true, permanent: makes_permanent || inline, protected: false, inline };
        self.model.live_by_string.insert(s.to_string(), idx);
        class = "revived";
      } else {
        let idx = self.model.handles.len();
        let inline = s.len() <= 15;
        self.model.handles.push(HandleRec {
          pstr: p,
          string: s.to_string(),
          live: true,
          permanent: makes_permanent || inline,
          protected: false,
          inline,
        });
        self.model.by_pstr.insert(p, idx);
        self.model.live_by_string.insert(s.to_string(), idx);
        class = if inline { "inline" } else { "new" };
      }
      // was this string reclaimed before? (I4)
      if self.model.handles.iter().any(|h| !h.live && h.string == s) {
        self.stats.realloc_after_reclaim += 1;
        self.stats.probes.inc("realloc_same_string_after_reclaim");
      }
    }
    Ok(class)
  }

  fn find_modref(&self, parts: &[String]) -> Option<usize> {
    self.model.modrefs.iter().position(|(_, p)| p == parts)
  }

  fn observe_modref(&mut self, i: usize, op: &Op, parts: &[String], mr: ModuleReference) -> Result<&'static str, Failure> {
    match self.find_modref(parts) {
      Some(idx) => {
        if self.model.modrefs[idx].0 != mr {
          fail!("modref_injective", i, op, "parts {:?} already have module reference {:?}, got {:?}", parts, self.model.modrefs[idx].0, mr);
        }
        Ok("existing")
      }
      None => {
        if let Some((_, other)) = self.model.modrefs.iter().find(|(m, _)| *m == mr) {
          fail!("modref_injective", i, op, "parts {:?} got module reference {:?} which belongs to {:?}", parts, mr, other);
        }
        self.model.modrefs.push((mr, parts.to_vec()));
        Ok("new")
      }
    }
  }

  fn step(&mut self, i: usize, op: &Op) -> Result<(), Failure> {
    self.stats.steps += 1;
    let (_, unused_before) = unused_count(&self.heap);
    let mut outcome = String::new();
    match op {
      Op::Alloc(s) => {
        let p = self.heap.alloc_string(s.clone());
        outcome = self.observe_alloc(i, op, s, p, false)?.to_string();
      }
      Op::AllocStatic(s) => {
        let st: &'static str = Box::leak(s.clone().into_boxed_str());
        let p = self.heap.alloc_str_for_test(st);
        outcome = self.observe_alloc(i, op, s, p, true)?.to_string();
      }
      Op::AllocTemp => {
        let p = self.heap.alloc_temp_str();
        let name = match readable(&self.heap, &p) {
          Ok(n) => n,
          Err(pr) => fail!("readback", i, op, "temp name unreadable: {}", pr.message),
        };
        if !self.model.temp_names.insert(name.clone()) {
          self.stats.probes.inc("temp_name_repeated");
        }
        outcome = self.observe_alloc(i, op, &name, p, false)?.to_string();
      }
      Op::TempCounter(n) => {
        let c = self.heap.create_temp_counter();
        for _ in 0..*n {
          let p = c.alloc_temp_str();
          let name = match readable(&self.heap, &p) {
            Ok(n) => n,
            Err(pr) => fail!("readback", i, op, "temp name unreadable: {}", pr.message),
          };
          if !self.model.temp_names.insert(name.clone()) {
            self.stats.probes.inc("temp_name_repeated");
          }
          self.observe_alloc(i, op, &name, p, false)?;
        }
        self.heap.sync_temp_counter(&c);
      }
      Op::CounterCreate => {
        self.counter = Some(self.heap.create_temp_counter());
        outcome = "created".into();
      }
      Op::CounterAlloc => match self.counter.take() {
        None => outcome = "skipped".into(),
        Some(c) => {
          let p = c.alloc_temp_str();
          self.counter = Some(c);
          let name = match readable(&self.heap, &p) {
            Ok(n) => n,
            Err(pr) => fail!("readback", i, op, "temp name unreadable: {}", pr.message),
          };
          if !self.model.temp_names.insert(name.clone()) {
            self.stats.probes.inc("temp_name_repeated");
          }
          outcome = self.observe_alloc(i, op, &name, p, false)?.to_string();
        }
      },
      Op::CounterSync => match self.counter.take() {
        None => outcome = "skipped".into(),
        Some(c) => {
          self.heap.sync_temp_counter(&c);
          self.stats.probes.inc("sync_of_a_counter_after_other_operations");
          outcome = "synced".into();
        }
      },
      Op::ModRef(parts) => {
        let mut ps = Vec::new();
        for s in parts {
          let p = self.heap.alloc_string(s.clone());
          self.observe_alloc(i, op, s, p, false)?;
          ps.push(p);
        }
        let mr = self.heap.alloc_module_reference(ps.clone());
        // parts are now permanent
        for (s, p) in parts.iter().zip(ps.iter()) {
          self.observe_alloc_permanent(i, op, s, *p)?;
        }
        outcome = self.observe_modref(i, op, parts, mr)?.to_string();
      }
      Op::ModRefFromStrings(parts) => {
        let mr = self.heap.alloc_module_reference_from_string_vec(parts.clone());
        let got: Vec<PStr> = mr.get_parts(&self.heap).to_vec();
        if got.len() != parts.len() {
          fail!("modref_parts", i, op, "module reference of {:?} has {} parts", parts, got.len());
        }
        for (s, p) in parts.iter().zip(got.iter()) {
          self.observe_alloc(i, op, s, *p, true)?;
        }
        outcome = self.observe_modref(i, op, parts, mr)?.to_string();
      }
      Op::GetModRef(parts) => {
        let got = self.heap.get_allocated_module_reference_opt(parts.clone());
        match (self.find_modref(parts), got) {
          (Some(idx), Some(mr)) if self.model.modrefs[idx].0 == mr => outcome = "found".into(),
          (None, None) => outcome = "absent".into(),
          (m, g) => fail!("modref_lookup", i, op, "lookup of {:?}: model {:?}, heap {:?}", parts, m.map(|x| self.model.modrefs[x].0), g),
        }
      }
      Op::AddUnmarked(parts) => match self.find_modref(parts) {
        Some(idx) => {
          self.heap.add_unmarked_module_reference(self.model.modrefs[idx].0);
          self.model.unmarked.insert(idx);
          outcome = "added".into();
        }
        None => outcome = "skipped".into(),
      },
      Op::Pop => {
        let got = self.heap.pop_unmarked_module_reference();
        match got {
          None => {
            if !self.model.unmarked.is_empty() {
              fail!("gate_set", i, op, "pop returned None but {} module references are unmarked", self.model.unmarked.len());
            }
            self.stats.faults.inc("pop_on_empty_set");
            outcome = "none".into();
          }
          Some(mr) => {
            // "some element": any member of the model's set is accepted
            let idx = self.model.modrefs.iter().position(|(m, _)| *m == mr);
            match idx {
              Some(idx) if self.model.unmarked.remove(&idx) => outcome = "popped".into(),
              _ => fail!("gate_set", i, op, "pop returned {:?} which is not in the unmarked set", mr),
            }
          }
        }
      }
      Op::Mark(s) => {
        // the most recent handle the mutator was given for this string
        let idx = self.model.handles.iter().rposition(|h| h.string == *s);
        match idx {
          None => outcome = "skipped".into(),
          Some(idx) => {
            let rec = self.model.handles[idx].clone();
            self.heap.mark(rec.pstr);
            if !rec.live {
              // marking a reclaimed handle — unless the slot was reused it must stay dead; nothing
              // to record in the model
              self.stats.faults.inc("mark_of_reclaimed_handle");
              outcome = "dead".into();
            } else if rec.inline {
              outcome = "inline".into();
            } else if rec.permanent {
              self.stats.probes.inc("mark_of_permanent");
              outcome = "permanent".into();
            } else {
              self.model.handles[idx].protected = true;
              outcome = "marked".into();
            }
          }
        }
      }
      Op::Sweep(unit) => {
        outcome = self.sweep(i, op, *unit)?;
      }
    }
    // no operation other than sweep may reclaim anything
    if !matches!(op, Op::Sweep(_)) {
      let (_, unused_after) = unused_count(&self.heap);
      if unused_after != unused_before {
        fail!("reclaim_outside_sweep", i, op, "unused slots went from {} to {} in a non-sweep operation", unused_before, unused_after);
      }
    }
    self.check_global(i, op)?;
    self.digest.str(op.kind());
    self.digest.str(&outcome);
    self.kind_digest.str(op.kind());
    self.kind_digest.str(&outcome);
    if let Some(t) = self.trace.as_deref_mut() {
      t.push(json!({"i": i, "op": op.to_json(), "outcome": outcome}));
    }
    Ok(())
  }

  fn observe_alloc_permanent(&mut self, i: usize, op: &Op, s: &str, p: PStr) -> Result<(), Failure> {
    // same checks as an allocation that returns the existing handle, plus the ghost flag
    self.observe_alloc(i, op, s, p, true).map(|_| ())
  }

  fn sweep(&mut self, i: usize, op: &Op, unit: usize) -> Result<String, Failure> {
    let gate_closed = !self.model.unmarked.is_empty();
    let unmarked_before = unmarked_set(&self.heap);
    let (slots, unused_before) = unused_count(&self.heap);
    if unit == 0 {
      self.stats.faults.inc("sweep_unit_zero");
    }
    if unit > slots {
      self.stats.faults.inc("sweep_unit_larger_than_table");
    }
    self.heap.sweep(unit);
    let unmarked_after = unmarked_set(&self.heap);
    let (_, unused_after) = unused_count(&self.heap);
    if gate_closed {
      self.stats.faults.inc("sweep_while_gate_closed");
      if unused_after != unused_before || unmarked_after != unmarked_before {
        fail!("gate", i, op, "sweep changed the heap while {} module references were unmarked", self.model.unmarked.len());
      }
      self.stats.consecutive_partial = 0;
      return Ok("gate_closed".into());
    }
    let mut reclaimed = 0u64;
    let mut cleared = 0u64;
    let mut untouched_candidates = 0u64;
    for idx in 0..self.model.handles.len() {
      let rec = self.model.handles[idx].clone();
      if !rec.live || rec.inline {
        continue;
      }
      let dead = unused_after != unused_before && readable(&self.heap, &rec.pstr).is_err();
      if dead {
        if rec.permanent {
          fail!("reclaimed_permanent", i, op, "permanent string {:?} was reclaimed", rec.string);
        }
        if rec.protected {
          fail!("reclaimed_marked", i, op, "string {:?} was marked since the sweeper last passed over it and was reclaimed", rec.string);
        }
        self.model.handles[idx].live = false;
        self.model.live_by_string.remove(&rec.string);
        reclaimed += 1;
      } else if !rec.permanent {
        let was_marked = !unmarked_before.contains(&rec.string);
        let is_marked = !unmarked_after.contains(&rec.string);
        if was_marked && !is_marked {
          // the sweeper passed over it
          self.model.handles[idx].protected = false;
          cleared += 1;
        } else if !was_marked {
          untouched_candidates += 1;
        }
      }
    }
    // a slice of `unit` slots can reclaim or un-mark at most `unit` strings: a mark that disappears
    // without the sweeper passing over its slot is a lost mark (the model otherwise *learns* from
    // the un-marking which slots the sweeper passed, so it has to bound it)
    if reclaimed + cleared > unit as u64 {
      fail!("sweep_exceeds_work_unit", i, op, "sweep({}) reclaimed {} and un-marked {} strings: more slots were touched than the slice has", unit, reclaimed, cleared);
    }
    if (unused_after - unused_before) as u64 != reclaimed {
      // slots the mutator never held a handle for cannot exist: every table string was handed out
      fail!("reclaim_accounting", i, op, "{} slots were reclaimed but only {} of them belong to handles given out", unused_after - unused_before, reclaimed);
    }
    self.stats.reclaimed += reclaimed;
    if reclaimed > 0 {
      self.stats.probes.inc("sweep_reclaimed_some");
    }
    if untouched_candidates > 0 {
      // an unmarked temporary survived: the slice ended before reaching it
      self.stats.probes.inc("partial_sweep");
      self.stats.consecutive_partial += 1;
      if self.stats.consecutive_partial >= 3 {
        self.stats.probes.inc("three_consecutive_partial_sweeps");
      }
    } else {
      self.stats.consecutive_partial = 0;
    }
    Ok(format!("r{reclaimed}c{cleared}u{untouched_candidates}"))
  }

  /// I1 (stable, injective, ordered) and I5 (module references) over everything live.
  fn check_global(&mut self, i: usize, op: &Op) -> Result<(), Failure> {
    let live: Vec<&HandleRec> = self.model.handles.iter().filter(|h| h.live).collect();
    for h in &live {
      match readable(&self.heap, &h.pstr) {
        Ok(s) if s == h.string => {}
        Ok(s) => fail!("stable", i, op, "live handle of {:?} now reads {:?}", h.string, s),
        Err(pr) => {
          if h.permanent {
            fail!("reclaimed_permanent", i, op, "permanent string {:?} is unreadable: {}", h.string, pr.message)
          } else if h.protected {
            fail!("reclaimed_marked", i, op, "marked string {:?} is unreadable: {}", h.string, pr.message)
          } else {
            fail!("stable", i, op, "live handle of {:?} is unreadable: {}", h.string, pr.message)
          }
        }
      }
    }
    for a in 0..live.len() {
      for b in (a + 1)..live.len() {
        let (x, y) = (live[a], live[b]);
        if x.pstr == y.pstr {
          fail!("injective", i, op, "distinct live strings {:?} and {:?} have equal handles", x.string, y.string);
        }
        let c1 = x.pstr.cmp(&y.pstr);
        let c2 = y.pstr.cmp(&x.pstr);
        if c1 == std::cmp::Ordering::Equal || c1 != c2.reverse() {
          fail!("order", i, op, "handles of {:?} and {:?} compare {:?} / {:?}", x.string, y.string, c1, c2);
        }
        if x.inline && y.inline && c1 != x.string.cmp(&y.string) {
          fail!("order", i, op, "inline handles of {:?} and {:?} do not order like their strings", x.string, y.string);
        }
      }
    }
    // transitivity over a sorted copy
    let mut sorted: Vec<&HandleRec> = live.clone();
    sorted.sort_by(|a, b| a.pstr.cmp(&b.pstr));
    for w in sorted.windows(3) {
      if w[0].pstr.cmp(&w[2].pstr) != std::cmp::Ordering::Less {
        fail!("order", i, op, "handle order is not transitive around {:?}", w[1].string);
      }
    }
    for (mr, parts) in &self.model.modrefs {
      let r = panics::catch(|| {
        let got: Vec<String> = mr.get_parts(&self.heap).iter().map(|p| p.as_str(&self.heap).to_string()).collect();
        (got, mr.pretty_print(&self.heap), mr.to_filename(&self.heap))
      });
      match r {
        Ok((got, pp, file)) => {
          if &got != parts || pp != parts.join(".") || file != format!("{}.sam", parts.join("/")) {
            fail!("modref_parts", i, op, "module reference of {:?} now reads {:?} / {:?} / {:?}", parts, got, pp, file);
          }
        }
        Err(pr) => fail!("reclaimed_permanent", i, op, "module reference {:?} is unreadable: {}", parts, pr.message),
      }
    }
    Ok(())
  }
}

struct RunResult {
  failure: Option<Failure>,
  stats: RunStats,
  digest: u64,
  kind_digest: u64,
}

fn execute(ops: &[Op], hash_seed: u64, trace: Option<&mut Vec<Value>>) -> RunResult {
  simcore::hashseed::enter(hash_seed);
  let mut ex = Exec::new();
  ex.trace = trace;
  let mut failure = None;
  for (i, op) in ops.iter().enumerate() {
    match panics::catch(|| ex.step(i, op)) {
      Ok(Ok(())) => {}
      Ok(Err(f)) => {
        failure = Some(f);
        break;
      }
      Err(pr) => {
        failure = Some(Failure {
          invariant: "api_panic",
          op_index: i,
          op_kind: op.kind(),
          detail: format!("public API call panicked at {}: {}", pr.place(), pr.message),
        });
        break;
      }
    }
  }
  let digest = ex.digest.finish();
  let kind_digest = ex.kind_digest.finish();
  RunResult { failure, stats: ex.stats, digest, kind_digest }
}

// ------------------------------------------------------------------------------------------------
// minimisation (ddmin over the operation list; same signature required)

fn minimise(ops: Vec<Op>, hash_seed: u64, signature: &str) -> Vec<Op> {
  let fails = |cand: &[Op]| -> bool {
    let r = simcore::runner::run_one(8 << 20, || execute(cand, hash_seed, None));
    r.failure.map(|f| f.signature() == signature).unwrap_or(false)
  };
  let mut cur = ops;
  let mut chunk = (cur.len() / 2).max(1);
  let start = std::time::Instant::now();
  while chunk >= 1 && start.elapsed().as_secs() < 60 {
    let mut i = 0;
    let mut progressed = false;
    while i < cur.len() {
      let end = (i + chunk).min(cur.len());
      let mut cand = cur.clone();
      cand.drain(i..end);
      if !cand.is_empty() && fails(&cand) {
        cur = cand;
        progressed = true;
      } else {
        i += chunk;
      }
    }
    if !progressed {
      if chunk == 1 {
        break;
      }
      chunk /= 2;
    }
  }
  // simplify arguments: sweep units towards small numbers, module parts towards short lists
  for i in 0..cur.len() {
    if let Op::Sweep(u) = cur[i] {
      for smaller in [1usize, 2, 3, 10_000] {
        if smaller != u {
          let mut cand = cur.clone();
          cand[i] = Op::Sweep(smaller);
          if fails(&cand) {
            cur = cand;
            break;
          }
        }
      }
    }
  }
  cur
}

fn replay_json(seed: u64, run_index: Option<u64>, hash_seed: u64, ops: &[Op], f: &Failure) -> Value {
  json!({
    "engine": "heap-sim",
    "property": PROPERTY,
    "seed": seed,
    "run_index": run_index,
    "hash_seed": hash_seed,
    "signature": f.signature(),
    "failed_at_op": f.op_index,
    "detail": f.detail,
    "ops": ops.iter().map(|o| o.to_json()).collect::<Vec<_>>(),
  })
}

// ------------------------------------------------------------------------------------------------

fn arg_value(args: &[String], name: &str) -> Option<String> {
  args.iter().position(|a| a == name).and_then(|i| args.get(i + 1).cloned())
}

fn main() {
  panics::install_hook();
  let args: Vec<String> = std::env::args().skip(1).collect();
  let seed = rng::verif_seed();

  if let Some(path) = arg_value(&args, "--replay") {
    let v = simcore::report::read_json(std::path::Path::new(&path));
    let ops: Vec<Op> = v["ops"].as_array().expect("ops").iter().map(Op::from_json).collect();
    let hash_seed = v["hash_seed"].as_u64().unwrap_or(0);
    let mut trace = Vec::new();
    let r = simcore::runner::run_one(64 << 20, || execute(&ops, hash_seed, Some(&mut trace)));
    if !args.iter().any(|a| a == "--print-signature") {
      for t in &trace {
        println!("{t}");
      }
    }
    match r.failure {
      Some(f) => {
        println!("SIGNATURE {}", f.signature());
        println!("violation at op {}: {}", f.op_index, f.detail);
        println!("VIOLATION property={PROPERTY} replay={path}");
        std::process::exit(1);
      }
      None => {
        println!("replay held: no violation");
        std::process::exit(0);
      }
    }
  }

  if let Some(n) = arg_value(&args, "--miri") {
    // memory-safety tier: run inline, no threads, no evidence; Miri is the oracle for UB, the
    // model stays on as well
    let n: u64 = n.parse().unwrap();
    let base: u64 = arg_value(&args, "--miri-seed").and_then(|s| s.parse().ok()).unwrap_or(seed);
    for i in 0..n {
      let rs = rng::run_seed(base, i);
      let (knobs, ops) = generate(rs);
      let r = execute(&ops, knobs.hash_seed, None);
      if let Some(f) = r.failure {
        println!("MIRI-TIER violation {} at op {}: {}", f.signature(), f.op_index, f.detail);
        std::process::exit(1);
      }
    }
    println!("miri tier: {n} runs from seed {base} held");
    return;
  }

  let tier = arg_value(&args, "--tier").unwrap_or_else(|| "quick".into());
  let default_runs: u64 = if tier == "thorough" { 20_000_000 } else { 200_000 };
  if tier == "thorough" {
    DEEP.store(true, std::sync::atomic::Ordering::Relaxed);
  }
  let runs: u64 = arg_value(&args, "--runs").and_then(|s| s.parse().ok()).unwrap_or(default_runs);
  let seconds: Option<u64> = arg_value(&args, "--seconds").and_then(|s| s.parse().ok()).or(if tier == "thorough" { Some(600) } else { None });
  let digests_path = arg_value(&args, "--digests");

  let start = std::time::Instant::now();
  let mut ev = Evidence::new(PROPERTY, &tier, seed);
  ev.rule = "runs are generated from the seed (free mode: any operation any time; protocol mode: the mark/pop/sweep pattern of services/gc.rs); a run is non-trivial when the sweeper reclaimed >=1 string AND a reclaimed string was re-allocated or a temporary was promoted; distinct = distinct FNV digests of the (operation kind, observed outcome class) sequence, where a sweep's outcome is (reclaimed, marks cleared, unmarked survivors)".into();
  ev.faults_fired.declare(&["sweep_while_gate_closed", "sweep_unit_zero", "sweep_unit_larger_than_table", "mark_of_reclaimed_handle", "pop_on_empty_set"]);
  ev.probes.declare(&[
    "partial_sweep",
    "three_consecutive_partial_sweeps",
    "sweep_reclaimed_some",
    "realloc_same_string_after_reclaim",
    "promote_marked_temporary",
    "promote_unmarked_temporary",
    "mark_of_permanent",
    "temp_name_repeated",
    "sync_of_a_counter_after_other_operations",
  ]);
  ev.components = json!({
    "real": ["samlang_heap::Heap", "samlang_heap::PStr", "samlang_heap::ModuleReference", "samlang_heap::TempPStrCounter"],
    "simulated": ["hash seeds (libc getrandom seam)", "interleaving of mutator / marker / collector operations"],
    "stubbed": []
  });
  ev.assumptions = vec![
    "slot states are observed through the public API only: debug_unmarked_strings(), stat(), and catch_unwind around PStr::as_str (reading a reclaimed slot panics by design)".into(),
    "pop_unmarked_module_reference may return any member of the set".into(),
  ];

  struct Acc {
    violations: Vec<(u64, Failure, Vec<Op>, u64)>,
    digests: Vec<(u64, u64)>,
    mode_runs: Counters,
    steps: u64,
  }
  let acc = Mutex::new(Acc { violations: Vec::new(), digests: Vec::new(), mode_runs: Counters::default(), steps: 0 });
  let ev_m = Mutex::new(&mut ev);
  let want_digests = digests_path.is_some();
  let stop = AtomicBool::new(false);
  let cfg = simcore::runner::RunnerConfig {
    runs,
    threads: simcore::runner::harness_threads(),
    stack_bytes: 8 << 20,
    deadline: seconds.map(std::time::Duration::from_secs),
  };
  let executed = simcore::runner::run_many(
    &cfg,
    &|i| {
      let rs = rng::run_seed(seed, i);
      let (knobs, ops) = generate(rs);
      let r = execute(&ops, knobs.hash_seed, None);
      (knobs, ops, r)
    },
    &mut |i, (knobs, ops, r): (Knobs, Vec<Op>, RunResult)| {
      let mut a = acc.lock().unwrap();
      let mut ev = ev_m.lock().unwrap();
      ev.evaluations += 1;
      ev.steps += r.stats.steps;
      a.steps += r.stats.steps;
      a.mode_runs.inc(knobs.mode);
      ev.faults_fired.merge(&r.stats.faults);
      ev.probes.merge(&r.stats.probes);
      if r.stats.reclaimed >= 1 && (r.stats.realloc_after_reclaim >= 1 || r.stats.promotions >= 1) {
        ev.distinct.insert(r.kind_digest);
      }
      if want_digests {
        a.digests.push((i, r.digest));
      }
      if i < 3 {
        ev.samples.push(json!({
          "run_index": i,
          "mode": knobs.mode,
          "hash_seed": knobs.hash_seed,
          "ops": ops.iter().map(|o| o.to_json()).collect::<Vec<_>>(),
          "reclaimed": r.stats.reclaimed,
          "held": r.failure.is_none(),
        }));
      }
      if let Some(f) = r.failure {
        if a.violations.len() < 64 {
          a.violations.push((i, f, ops, knobs.hash_seed));
        }
      }
    },
    &stop,
  );
  drop(ev_m);
  let acc = acc.into_inner().unwrap();
  ev.samples.sort_by_key(|s| s["run_index"].as_u64());
  ev.extra.insert("runs_by_mode".into(), acc.mode_runs.to_json());
  ev.extra.insert("bounds".into(), json!({"ops_per_run": if tier == "thorough" { "5..60, a quarter of the runs 60..240" } else { "5..60 (protocol runs may exceed by one GC round)" }, "string_pool": string_pool().len(), "sweep_units": "0,1,2,3,len-1,len,len+1,10000,random"}));
  ev.extra.insert("miri_tier".into(), json!("run separately by ./check C17 thorough (cargo +nightly miri); its result is printed, not recorded here"));

  if let Some(p) = digests_path {
    let mut d = acc.digests.clone();
    d.sort();
    let text: String = d.iter().map(|(i, h)| format!("{i} {h:016x}\n")).collect();
    std::fs::write(p, text).expect("write digests");
  }

  // minimise one representative per signature
  let mut by_sig: std::collections::BTreeMap<String, (u64, Failure, Vec<Op>, u64)> = Default::default();
  for v in acc.violations {
    by_sig.entry(v.1.signature()).or_insert(v);
  }
  let mut violations = Vec::new();
  for (sig, (run_index, f, ops, hash_seed)) in by_sig {
    let small = simcore::runner::run_one(64 << 20, || minimise(ops.clone(), hash_seed, &sig));
    let r = simcore::runner::run_one(64 << 20, || execute(&small, hash_seed, None));
    let f2 = r.failure.unwrap_or(f);
    violations.push(Violation {
      property: PROPERTY.into(),
      signature: sig.clone(),
      description: format!("run {run_index}: {}", f2.detail),
      replay: replay_json(seed, Some(run_index), hash_seed, &small, &f2),
    });
  }
  let outcome = simcore::report::conclude(PROPERTY, seed, violations, &[]);
  ev.violations = outcome.unlisted;
  ev.known_findings_matched = outcome.known.clone();
  let wall = start.elapsed().as_secs_f64();
  ev.write(wall);
  println!(
    "C17 {tier}: {executed} runs, {} steps, {} distinct non-trivial, {:.1}s, exit {}",
    ev.steps,
    ev.distinct.len(),
    wall,
    outcome.exit_code
  );
  std::process::exit(outcome.exit_code);
}
