//! Executing one scenario against a real `ServerState` and evaluating the C10 / C11 / C16 oracles.

use crate::gen::{mod_display, ModName};
use samlang_ast::{Location, Position};
use samlang_errors::{CompileTimeError, ErrorDetail};
use samlang_heap::{Heap, ModuleReference};
use samlang_services::server_state::ServerState;
use samlang_services::{completion, query, rewrite};
use serde_json::{json, Value};
use simcore::panics::{self, PanicRecord};
use simcore::pool;
use simcore::report::{Counters, Evidence};
use simcore::rng::Rng;
use simcore::Fnv;
use std::collections::{BTreeMap, BTreeSet, HashMap};

#[derive(Clone, Copy, PartialEq, Eq, Debug)]
pub enum Mode {
  C10,
  C11,
  C16,
}

#[derive(Clone, Debug)]
pub struct Knobs {
  pub hash_seed: u64,
  pub sched_seed: u64,
  pub policy: String, // "seeded" | "fifo"
  pub workers: usize,
  /// 0 = shipped constant
  pub gc_slice: usize,
  pub gc_sweep: usize,
  pub with_std: bool,
}

impl Knobs {
  pub fn to_json(&self) -> Value {
    json!({"hash_seed": self.hash_seed, "sched_seed": self.sched_seed, "policy": self.policy, "workers": self.workers, "gc_slice": self.gc_slice, "gc_sweep": self.gc_sweep, "with_std": self.with_std})
  }
  pub fn from_json(v: &Value) -> Knobs {
    Knobs {
      hash_seed: v["hash_seed"].as_u64().unwrap_or(0),
      sched_seed: v["sched_seed"].as_u64().unwrap_or(0),
      policy: v["policy"].as_str().unwrap_or("seeded").to_string(),
      workers: v["workers"].as_u64().unwrap_or(1) as usize,
      gc_slice: v["gc_slice"].as_u64().unwrap_or(0) as usize,
      gc_sweep: v["gc_sweep"].as_u64().unwrap_or(0) as usize,
      with_std: v["with_std"].as_bool().unwrap_or(false),
    }
  }
}

#[derive(Clone, Debug, PartialEq)]
pub enum Op {
  Update(Vec<(ModName, String)>),
  Rename(Vec<(ModName, ModName)>),
  Remove(Vec<ModName>),
  /// kind ∈ hover, signature_help, definition, references, folding, complete, code_actions,
  /// format, rename
  Query { kind: String, module: ModName, line: u32, col: u32, arg: String },
  /// C16: for every unresolved-class diagnostic of `module` ask for code actions, check every
  /// proposed action, apply the `pick`-th to the document and send it back
  ApplyActions { module: ModName, pick: usize },
  /// C16: completion at a position, check every item's additional edits, apply the `pick`-th
  /// item that has edits
  ApplyCompletion { module: ModName, line: u32, col: u32, pick: usize },
}

fn mods_json(m: &ModName) -> Value {
  json!(m)
}

fn mod_from(v: &Value) -> ModName {
  v.as_array().expect("module name").iter().map(|x| x.as_str().unwrap().to_string()).collect()
}

impl Op {
  pub fn kind(&self) -> &str {
    match self {
      Op::Update(_) => "update",
      Op::Rename(_) => "rename_module",
      Op::Remove(_) => "remove",
      Op::Query { kind, .. } => kind.as_str(),
      Op::ApplyActions { .. } => "apply_actions",
      Op::ApplyCompletion { .. } => "apply_completion",
    }
  }

  pub fn is_mutation(&self) -> bool {
    !matches!(self, Op::Query { .. })
  }

  pub fn summary(&self) -> Value {
    match self {
      Op::Update(ms) => json!({"op": "update", "modules": ms.iter().map(|(m, t)| format!("{} ({} bytes)", mod_display(m), t.len())).collect::<Vec<_>>()}),
      Op::Rename(ps) => json!({"op": "rename_module", "pairs": ps.iter().map(|(a, b)| format!("{} -> {}", mod_display(a), mod_display(b))).collect::<Vec<_>>()}),
      Op::Remove(ms) => json!({"op": "remove", "modules": ms.iter().map(mod_display).collect::<Vec<_>>()}),
      Op::Query { kind, module, line, col, arg } => json!({"op": kind, "module": mod_display(module), "line": line, "col": col, "arg": arg}),
      Op::ApplyActions { module, pick } => json!({"op": "apply_actions", "module": mod_display(module), "pick": pick}),
      Op::ApplyCompletion { module, line, col, pick } => json!({"op": "apply_completion", "module": mod_display(module), "line": line, "col": col, "pick": pick}),
    }
  }

  pub fn to_json(&self) -> Value {
    match self {
      Op::Update(ms) => json!({"op": "update", "modules": ms.iter().map(|(m, t)| json!({"module": m, "text": t})).collect::<Vec<_>>()}),
      Op::Rename(ps) => json!({"op": "rename_module", "pairs": ps.iter().map(|(a, b)| json!([a, b])).collect::<Vec<_>>()}),
      Op::Remove(ms) => json!({"op": "remove", "modules": ms.iter().map(mods_json).collect::<Vec<_>>()}),
      Op::Query { kind, module, line, col, arg } => json!({"op": "query", "kind": kind, "module": module, "line": line, "col": col, "arg": arg}),
      Op::ApplyActions { module, pick } => json!({"op": "apply_actions", "module": module, "pick": pick}),
      Op::ApplyCompletion { module, line, col, pick } => json!({"op": "apply_completion", "module": module, "line": line, "col": col, "pick": pick}),
    }
  }

  pub fn from_json(v: &Value) -> Op {
    match v["op"].as_str().expect("op") {
      "update" => Op::Update(
        v["modules"].as_array().unwrap().iter().map(|m| (mod_from(&m["module"]), m["text"].as_str().unwrap().to_string())).collect(),
      ),
      "rename_module" => Op::Rename(v["pairs"].as_array().unwrap().iter().map(|p| (mod_from(&p[0]), mod_from(&p[1]))).collect()),
      "remove" => Op::Remove(v["modules"].as_array().unwrap().iter().map(mod_from).collect()),
      "query" => Op::Query {
        kind: v["kind"].as_str().unwrap().to_string(),
        module: mod_from(&v["module"]),
        line: v["line"].as_u64().unwrap() as u32,
        col: v["col"].as_u64().unwrap() as u32,
        arg: v["arg"].as_str().unwrap_or("").to_string(),
      },
      "apply_actions" => Op::ApplyActions { module: mod_from(&v["module"]), pick: v["pick"].as_u64().unwrap_or(0) as usize },
      "apply_completion" => Op::ApplyCompletion {
        module: mod_from(&v["module"]),
        line: v["line"].as_u64().unwrap() as u32,
        col: v["col"].as_u64().unwrap() as u32,
        pick: v["pick"].as_u64().unwrap_or(0) as usize,
      },
      other => panic!("unknown op {other}"),
    }
  }
}

#[derive(Clone, Debug)]
pub struct Scenario {
  pub kind: String, // "synthetic" | "corpus" | "layout"
  pub knobs: Knobs,
  pub initial: Vec<(ModName, String)>,
  pub ops: Vec<Op>,
  /// faults the generator placed (counted as fired when the op executes; the generator only emits
  /// what will execute)
  pub faults: Counters,
}

impl Scenario {
  pub fn to_json(&self) -> Value {
    json!({
      "kind": self.kind,
      "knobs": self.knobs.to_json(),
      "initial": self.initial.iter().map(|(m, t)| json!({"module": m, "text": t})).collect::<Vec<_>>(),
      "ops": self.ops.iter().map(|o| o.to_json()).collect::<Vec<_>>(),
    })
  }

  pub fn from_json(v: &Value) -> Scenario {
    Scenario {
      kind: v["kind"].as_str().unwrap_or("replay").to_string(),
      knobs: Knobs::from_json(&v["knobs"]),
      initial: v["initial"].as_array().map(|a| a.iter().map(|m| (mod_from(&m["module"]), m["text"].as_str().unwrap().to_string())).collect()).unwrap_or_default(),
      ops: v["ops"].as_array().map(|a| a.iter().map(Op::from_json).collect()).unwrap_or_default(),
      faults: Counters::default(),
    }
  }

  // documents addressable by the minimiser
  pub fn doc_count(&self) -> usize {
    self.initial.len() + self.ops.iter().map(|o| if let Op::Update(ms) = o { ms.len() } else { 0 }).sum::<usize>()
  }

  pub fn doc(&self, mut d: usize) -> &str {
    if d < self.initial.len() {
      return &self.initial[d].1;
    }
    d -= self.initial.len();
    for o in &self.ops {
      if let Op::Update(ms) = o {
        if d < ms.len() {
          return &ms[d].1;
        }
        d -= ms.len();
      }
    }
    unreachable!()
  }

  pub fn doc_mut(&mut self, mut d: usize) -> &mut String {
    if d < self.initial.len() {
      return &mut self.initial[d].1;
    }
    d -= self.initial.len();
    for o in self.ops.iter_mut() {
      if let Op::Update(ms) = o {
        if d < ms.len() {
          return &mut ms[d].1;
        }
        d -= ms.len();
      }
    }
    unreachable!()
  }
}

#[derive(Clone, Debug)]
pub struct Found {
  pub signature: String,
  pub op_index: usize,
  pub detail: String,
}

#[derive(Default)]
pub struct RunResult {
  pub violations: Vec<Found>,
  pub steps: u64,
  pub faults: Counters,
  pub probes: Counters,
  pub digest: u64,
  pub nontrivial: bool,
  pub distinct_digests: Vec<u64>,
}

pub fn declare_counters(ev: &mut Evidence, mode: Mode) {
  ev.faults_fired.declare(&[
    "torn_document",
    "garbled_document",
    "ill_typed_edit",
    "duplicate_delivery",
    "same_module_twice_in_batch",
    "edit_then_undo",
    "dependency_broken_then_healed",
    "rename_onto_existing",
    "rename_onto_absent_but_imported_name",
    "rename_absent_source",
    "rename_to_self",
    "rename_chain",
    "remove_absent",
    "remove_twice",
    "more_than_100_modules",
    "import_cycle_of_length_3_or_more",
  ]);
  ev.probes.declare(&[
    "diagnostics_nonempty",
    "diagnostics_changed_in_module_not_named_by_op",
    "error_disappeared_in_module_not_named_by_op",
    "update_of_module_with_syntax_errors",
    "fresh_not_unique",
    "aborted_by_panic_not_this_property",
    "runs_with_std",
    "workers_gt_1",
  ]);
  if mode == Mode::C11 {
    ev.faults_fired.declare(&["query_on_removed_module", "query_on_unknown_module", "query_past_eof", "query_at_u32_max"]);
    ev.probes.declare(&[
      "gc_reclaimed_strings",
      "gc_partial_sweep_unmarked_survivors",
      "query_after_reclaim",
      "readout_after_reclaim",
      "query_returned_some",
      "format_returned_some",
      "rename_query_returned_some",
    ]);
  }
  if mode == Mode::C16 {
    ev.probes.declare(&[
      "actions_proposed",
      "actions_checked",
      "actions_applied",
      "completion_items_with_edits",
      "clauses_iii_v_skipped_old_text_had_syntax_errors",
      "clause_iv_skipped_exporter_declares_an_interface",
      "class_exported_by_two_modules",
      "document_without_imports",
      "last_import_without_semicolon",
      "comment_after_last_import",
    ]);
  }
}

// ------------------------------------------------------------------------------------------------

fn detail_kind(d: &ErrorDetail) -> String {
  let s = format!("{d:?}");
  s.chars().take_while(|c| c.is_ascii_alphanumeric()).collect()
}

/// Diagnostics that list names print them in an order that depends on hash seeds or on the
/// allocation history of the heap (finding F6/F7, known_findings.json). Their canonical form — list
/// items sorted — is what the C10 verdict compares; a pure order difference is reported under its
/// own signature `list_order|<kind>`.
fn canonical(text: &str, kind: &str) -> String {
  match kind {
    "MissingClassMemberDefinitions" | "NonExhaustiveStructBinding" => {
      // sort every maximal run of consecutive list lines
      let mut lines: Vec<&str> = text.split('\n').collect();
      let mut i = 0;
      while i < lines.len() {
        if lines[i].starts_with("- `") {
          let mut j = i;
          while j < lines.len() && lines[j].starts_with("- `") {
            j += 1;
          }
          lines[i..j].sort();
          i = j;
        } else {
          i += 1;
        }
      }
      lines.join("\n")
    }
    "NonExhaustiveMatch" => {
      // which of several missing variants is shown as the counter-example is decided by PStr
      // order (allocation history for long names): compare everything but the example
      let marker = "Here is an example of a non-matching value: `";
      match text.find(marker) {
        Some(i) => {
          let rest = &text[i + marker.len()..];
          match rest.find("`.") {
            Some(j) => format!("{}<example>{}", &text[..i + marker.len()], &rest[j..]),
            None => text.to_string(),
          }
        }
        None => text.to_string(),
      }
    }
    "OrPatternInconsistentBindings" => {
      let mut out = String::new();
      let mut rest = text;
      while let Some(i) = rest.find('[') {
        let Some(j) = rest[i..].find(']') else { break };
        out.push_str(&rest[..=i]);
        let mut items: Vec<&str> = rest[i + 1..i + j].split(", ").collect();
        items.sort();
        out.push_str(&items.join(", "));
        rest = &rest[i + j..];
      }
      out.push_str(rest);
      out
    }
    _ => text.to_string(),
  }
}

fn kind_of(tagged: &str) -> &str {
  tagged.split('\u{1}').next().unwrap_or("")
}

/// (canonical text, kind) per module, sorted
fn canonical_rendered(r: &Rendered) -> Rendered {
  r.iter()
    .map(|(m, errs)| {
      let mut v: Vec<(String, String)> = errs
        .iter()
        .map(|(_, tagged)| {
          let mut it = tagged.splitn(2, '\u{1}');
          let k = it.next().unwrap_or("").to_string();
          (it.next().unwrap_or("").to_string(), k)
        })
        .collect();
      v.sort();
      (m.clone(), v)
    })
    .collect()
}

/// rendered diagnostics of one module: (text, kind), sorted
fn render_module(state: &ServerState, m: &ModuleReference) -> Vec<(String, String)> {
  let mut v: Vec<(String, String)> = state
    .get_errors(m)
    .iter()
    .map(|e: &CompileTimeError| {
      let ide = e.to_ide_format(&state.heap, &state.string_sources);
      let refs: Vec<String> = ide.reference_locs.iter().map(|l| l.pretty_print(&state.heap)).collect();
      let kind = detail_kind(&e.detail);
      let loc = ide.location.pretty_print(&state.heap);
      (
        format!("{} | {} | {} | refs={:?}", loc, ide.ide_error, ide.full_error, refs),
        format!("{kind}\u{1}{} | {} | {} | refs={:?}", loc, canonical(&ide.ide_error, &kind), canonical(&ide.full_error, &kind), refs),
      )
    })
    .collect();
  v.sort();
  v
}

type Rendered = BTreeMap<String, Vec<(String, String)>>;

fn render_all(state: &ServerState) -> Rendered {
  let mut out = BTreeMap::new();
  for m in state.all_modules() {
    out.insert(m.pretty_print(&state.heap), render_module(state, m));
  }
  out
}

fn fresh_render(world: &BTreeMap<ModName, String>) -> Rendered {
  pool::suspended(|| {
    let mut heap = Heap::new();
    let mut sources = HashMap::new();
    for (m, t) in world {
      let mr = heap.alloc_module_reference_from_string_vec(m.clone());
      sources.insert(mr, t.clone());
    }
    let fresh = ServerState::new(heap, false, sources);
    render_all(&fresh)
  })
}

fn fresh_render_other_seed(world: &BTreeMap<ModName, String>, hash_seed: u64) -> Rendered {
  std::thread::scope(|s| {
    std::thread::Builder::new()
      .stack_size(crate::RUN_STACK)
      .spawn_scoped(s, || {
        simcore::hashseed::enter(hash_seed);
        fresh_render(world)
      })
      .unwrap()
      .join()
      .unwrap()
  })
}

struct Exec<'a> {
  mode: Mode,
  state: ServerState,
  world: BTreeMap<ModName, String>,
  result: RunResult,
  digest: Fnv,
  kind_digest: Fnv,
  trace: Option<&'a mut Vec<Value>>,
  last_unused: usize,
  reclaimed_total: u64,
  hash_seed: u64,
  ever_removed: BTreeSet<ModName>,
  stop: bool,
  knob_tag: String,
}

fn unused_slots(heap: &Heap) -> usize {
  let s = heap.stat();
  let nums: Vec<usize> = s.split(|c: char| !c.is_ascii_digit()).filter(|t| !t.is_empty()).map(|t| t.parse().unwrap()).collect();
  nums[2]
}

fn panic_signature(api: &str, pr: &PanicRecord) -> String {
  format!("{}|{}|{}", api, pr.place(), pr.short_message())
}

impl<'a> Exec<'a> {
  fn violation(&mut self, i: usize, signature: String, detail: String) {
    if !self.result.violations.iter().any(|v| v.signature == signature) {
      self.result.violations.push(Found { signature, op_index: i, detail });
    }
  }

  fn c11_panic(&mut self, i: usize, api: &str, pr: PanicRecord, fatal: bool) {
    if self.mode == Mode::C11 {
      let sig = panic_signature(api, &pr);
      self.violation(i, sig, format!("{api} panicked at {}: {}", pr.place(), pr.message));
    } else {
      self.result.probes.inc("aborted_by_panic_not_this_property");
    }
    if fatal || self.mode != Mode::C11 {
      self.stop = true;
    }
  }

  fn resolve_readonly(&self, m: &ModName) -> ModuleReference {
    // what cli/main.rs does for queries: unknown module ↦ ROOT
    self.state.heap.get_allocated_module_reference_opt(m.clone()).unwrap_or(ModuleReference::ROOT)
  }

  fn log(&mut self, i: usize, what: Value) {
    if let Some(t) = self.trace.as_deref_mut() {
      t.push(json!({"i": i, "event": what}));
    }
  }

  /// the GC ran inside the mutation: observe what it reclaimed
  fn observe_gc(&mut self) -> u64 {
    let unused = unused_slots(&self.state.heap);
    let d = unused.saturating_sub(self.last_unused) as u64;
    self.last_unused = unused;
    if d > 0 {
      self.result.probes.add("gc_reclaimed_strings", d);
      self.reclaimed_total += d;
    }
    if self.mode == Mode::C11 && !self.state.heap.debug_unmarked_strings().is_empty() {
      self.result.probes.inc("gc_partial_sweep_unmarked_survivors");
    }
    d
  }

  fn apply_world(&mut self, op: &Op) {
    match op {
      Op::Update(ms) => {
        for (m, t) in ms {
          self.world.insert(m.clone(), t.clone());
        }
      }
      Op::Rename(ps) => {
        for (a, b) in ps {
          if let Some(t) = self.world.remove(a) {
            self.ever_removed.insert(a.clone());
            self.world.insert(b.clone(), t);
          }
        }
      }
      Op::Remove(ms) => {
        for m in ms {
          if self.world.remove(m).is_some() {
            self.ever_removed.insert(m.clone());
          }
        }
      }
      _ => {}
    }
  }

  fn mutate(&mut self, i: usize, op: &Op) -> bool {
    let api = op.kind().to_string();
    let r = match op {
      Op::Update(ms) => {
        let state = &mut self.state;
        panics::catch(|| {
          let ups: Vec<(ModuleReference, String)> =
            ms.iter().map(|(m, t)| (state.heap.alloc_module_reference_from_string_vec(m.clone()), t.clone())).collect();
          state.update(ups)
        })
      }
      Op::Rename(ps) => {
        let state = &mut self.state;
        panics::catch(|| {
          let rs: Vec<(ModuleReference, ModuleReference)> = ps
            .iter()
            .map(|(a, b)| {
              (state.heap.alloc_module_reference_from_string_vec(a.clone()), state.heap.alloc_module_reference_from_string_vec(b.clone()))
            })
            .collect();
          state.rename_module(rs)
        })
      }
      Op::Remove(ms) => {
        // cli/main.rs resolves read-only; a module the server never heard of is skipped here (the
        // glue's handling of that case is exercised at L2)
        let refs: Vec<ModuleReference> =
          ms.iter().filter_map(|m| self.state.heap.get_allocated_module_reference_opt(m.clone())).collect();
        let state = &mut self.state;
        panics::catch(|| state.remove(&refs))
      }
      _ => unreachable!(),
    };
    match r {
      Ok(()) => {
        self.apply_world(op);
        true
      }
      Err(pr) => {
        self.c11_panic(i, &api, pr, true);
        self.stop = true;
        false
      }
    }
  }

  fn named_modules(op: &Op) -> BTreeSet<String> {
    match op {
      Op::Update(ms) => ms.iter().map(|(m, _)| mod_display(m)).collect(),
      Op::Rename(ps) => ps.iter().flat_map(|(a, b)| vec![mod_display(a), mod_display(b)]).collect(),
      Op::Remove(ms) => ms.iter().map(mod_display).collect(),
      Op::ApplyActions { module, .. } | Op::ApplyCompletion { module, .. } => [mod_display(module)].into_iter().collect(),
      _ => BTreeSet::new(),
    }
  }

  /// C10 oracle after a mutation. `before`: SUT rendering before the op (for probes).
  fn compare_with_fresh(&mut self, i: usize, op: &Op, before: &Rendered) {
    let sut = match panics::catch(|| render_all(&self.state)) {
      Ok(r) => r,
      Err(pr) => {
        self.c11_panic(i, "publish_diagnostics(to_ide_format)", pr, true);
        return;
      }
    };
    let named = Self::named_modules(op);
    // probes
    let mut any = false;
    for (m, errs) in &sut {
      if !errs.is_empty() {
        any = true;
      }
      if !named.contains(m) {
        if let Some(b) = before.get(m) {
          if b != errs {
            self.result.probes.inc("diagnostics_changed_in_module_not_named_by_op");
            self.result.nontrivial = self.result.nontrivial || self.mode == Mode::C10;
            if errs.len() < b.len() {
              self.result.probes.inc("error_disappeared_in_module_not_named_by_op");
            }
          }
        }
      }
    }
    if any {
      self.result.probes.inc("diagnostics_nonempty");
    }
    for (m, errs) in &sut {
      let role = if named.contains(m) { "n" } else { "o" };
      self.kind_digest.str(role);
      for (_, k) in errs {
        self.kind_digest.str(kind_of(k));
      }
    }
    for (m, errs) in &sut {
      self.digest.str(m);
      for (t, _) in errs {
        self.digest.str(t);
      }
    }
    if self.mode != Mode::C10 {
      return;
    }
    let fresh = match panics::catch(|| fresh_render(&self.world)) {
      Ok(f) => f,
      Err(_) => {
        // a fresh server that panics is C11's business (ServerState::new), not a C10 mismatch
        self.result.probes.inc("aborted_by_panic_not_this_property");
        self.stop = true;
        return;
      }
    };
    if sut == fresh {
      return;
    }
    let (sut_exact, fresh_exact) = (sut, fresh);
    let sut = canonical_rendered(&sut_exact);
    let fresh = canonical_rendered(&fresh_exact);
    if sut == fresh {
      // same diagnostics up to the order of listed names
      for (m, errs) in &sut_exact {
        let f = fresh_exact.get(m).cloned().unwrap_or_default();
        for (t, kfull) in errs {
          let k = kind_of(kfull);
          if !f.iter().any(|x| x.0 == *t) {
            let first = t.split(" | ").take(2).collect::<Vec<_>>().join(" | ");
            // the recorded findings (F7) can only swap or choose among names of 16 bytes or more
            let counterpart = f.iter().find(|y| y.1 == *kfull && !errs.iter().any(|z| z.0 == y.0));
            let f7 = counterpart.map(|y| simcore::explained_by_order_of_long_names(t, &y.0)).unwrap_or(false);
            let what = match (k == "NonExhaustiveMatch", f7) {
              (true, true) => "counterexample_choice",
              (true, false) => "counterexample_choice_not_by_long_names",
              (false, true) => "list_order",
              (false, false) => "list_order_not_by_long_names",
            };
            self.violation(
              i,
              format!("{what}|{k}"),
              format!("after {}: module {m} has the same diagnostic as a fresh server up to the order / choice of listed names: {first}", op.kind()),
            );
          }
        }
      }
      return;
    }
    // is the fresh analysis unique? (DESIGN 4.2) compare against 8 further hash seeds
    for k in 1..=8u64 {
      let alt = fresh_render_other_seed(&self.world, simcore::rng::mix(self.hash_seed, 0xA17 + k));
      if canonical_rendered(&alt) == sut {
        self.result.probes.inc("fresh_not_unique");
        return;
      }
    }
    // one mismatching step is enough: later steps would mostly repeat it
    self.stop = true;
    let empty = Vec::new();
    let all: BTreeSet<&String> = sut.keys().chain(fresh.keys()).collect();
    for m in all {
      let s = sut.get(m).unwrap_or(&empty);
      let f = fresh.get(m).unwrap_or(&empty);
      if s == f {
        continue;
      }
      let relation = if named.contains(m) { "named" } else { "other" };
      self.log(i, json!({"module": m, "incremental": s.iter().map(|x| x.0.split(" | ").take(2).collect::<Vec<_>>().join(" | ")).collect::<Vec<_>>(), "fresh": f.iter().map(|x| x.0.split(" | ").take(2).collect::<Vec<_>>().join(" | ")).collect::<Vec<_>>()}));
      let mut f_left: Vec<&(String, String)> = f.iter().collect();
      let mut extra: Vec<&(String, String)> = Vec::new();
      for e in s {
        if let Some(p) = f_left.iter().position(|x| *x == e) {
          f_left.remove(p);
        } else {
          extra.push(e);
        }
      }
      for (text, kind) in extra {
        let sig = format!("extra|{kind}|{relation}|{}", op.kind());
        let first = text.split(" | ").take(2).collect::<Vec<_>>().join(" | ");
        self.violation(i, sig, format!("after {}: module {m} holds a diagnostic a fresh server does not compute: {first}", op.kind()));
      }
      for (text, kind) in f_left {
        let sig = format!("missing|{kind}|{relation}|{}", op.kind());
        let first = text.split(" | ").take(2).collect::<Vec<_>>().join(" | ");
        self.violation(i, sig, format!("after {}: module {m} lacks a diagnostic a fresh server computes: {first}", op.kind()));
      }
    }
  }

  /// what cli/main.rs does after every notification, plus formatting and hovers: the step that
  /// turns a handle reclaimed too early into an observable abort
  fn readout(&mut self, i: usize) {
    if self.reclaimed_total > 0 {
      self.result.probes.inc("readout_after_reclaim");
    }
    let mods: Vec<ModuleReference> = {
      let mut v: Vec<ModuleReference> = self.state.all_modules().into_iter().copied().collect();
      v.sort();
      v
    };
    for m in &mods {
      if let Err(pr) = panics::catch(|| render_module(&self.state, m)) {
        self.c11_panic(i, "publish_diagnostics(to_ide_format)", pr, false);
      }
    }
    for m in &mods {
      match panics::catch(|| rewrite::format_entire_document(&self.state, m)) {
        Ok(Some(_)) => self.result.probes.inc("format_returned_some"),
        Ok(None) => {}
        Err(pr) => self.c11_panic(i, "format_entire_document", pr, false),
      }
      if let Err(pr) = panics::catch(|| query::folding_ranges(&self.state, m)) {
        self.c11_panic(i, "folding_ranges", pr, false);
      }
    }
    if !mods.is_empty() {
      let m = mods[i % mods.len()];
      let text = self.state.string_sources.get(&m).cloned().unwrap_or_default();
      let starts = crate::gen::token_starts(&text);
      let step = (starts.len() / 12).max(1);
      for (line, col, _) in starts.iter().step_by(step) {
        let pos = Position(*line, *col);
        match panics::catch(|| query::hover(&self.state, &m, pos).map(|r| r.contents.len())) {
          Ok(Some(_)) => self.result.probes.inc("query_returned_some"),
          Ok(None) => {}
          Err(pr) => self.c11_panic(i, "hover", pr, false),
        }
        if let Err(pr) = panics::catch(|| completion::auto_complete(&self.state, &m, pos).len()) {
          self.c11_panic(i, "auto_complete", pr, false);
        }
      }
    }
  }

  fn run_query(&mut self, i: usize, kind: &str, module: &ModName, line: u32, col: u32, arg: &str) {
    let m = self.resolve_readonly(module);
    let pos = Position(line, col);
    if !self.world.contains_key(module) {
      if self.ever_removed.contains(module) {
        self.result.faults.inc("query_on_removed_module");
      } else {
        self.result.faults.inc("query_on_unknown_module");
      }
    } else {
      let text = &self.world[module];
      let n_lines = text.split('\n').count() as u32;
      if line == u32::MAX {
        self.result.faults.inc("query_at_u32_max");
      } else if line >= n_lines {
        self.result.faults.inc("query_past_eof");
      }
    }
    if self.reclaimed_total > 0 {
      self.result.probes.inc("query_after_reclaim");
    }
    let state = &mut self.state;
    let r: Result<Option<String>, PanicRecord> = panics::catch(|| match kind {
      "hover" => query::hover(state, &m, pos).map(|r| r.contents.iter().map(|c| c.to_string()).collect::<Vec<_>>().join(";")),
      "signature_help" => query::signature_help(state, &m, pos).map(|r| r.to_string()),
      "definition" => query::definition_location(state, &m, pos).map(|l| l.pretty_print(&state.heap)),
      "references" => {
        let v = query::all_references(state, &m, pos);
        if v.is_empty() { None } else { Some(v.iter().map(|l| l.pretty_print(&state.heap)).collect::<Vec<_>>().join(";")) }
      }
      "folding" => query::folding_ranges(state, &m).map(|v| format!("{}", v.len())),
      "complete" => {
        let v = completion::auto_complete(state, &m, pos);
        if v.is_empty() { None } else { Some(v.iter().map(|x| x.to_string()).collect::<Vec<_>>().join(";")) }
      }
      "code_actions" => {
        let loc = Location { module_reference: m, start: pos, end: pos };
        let v = rewrite::code_actions(state, loc);
        if v.is_empty() { None } else { Some(format!("{v:?}")) }
      }
      "format" => rewrite::format_entire_document(state, &m),
      "rename" => rewrite::rename(state, &m, pos, arg),
      other => panic!("HARNESS: unknown query kind {other}"),
    });
    match r {
      Ok(res) => {
        if res.is_some() {
          self.result.probes.inc("query_returned_some");
          if kind == "rename" {
            self.result.probes.inc("rename_query_returned_some");
          }
        }
        self.digest.str(kind);
        self.digest.str(res.as_deref().unwrap_or("<none>"));
        self.log(i, json!({"query": kind, "result": res}));
      }
      Err(pr) => {
        self.log(i, json!({"query": kind, "panic": pr.message}));
        self.c11_panic(i, kind, pr, false)
      }
    }
  }
}

pub fn execute(sc: &Scenario, mode: Mode, trace: Option<&mut Vec<Value>>) -> RunResult {
  simcore::hashseed::enter(sc.knobs.hash_seed);
  let schedule = if sc.knobs.policy == "fifo" {
    pool::Schedule::Seeded { rng: Rng::new(0), policy: pool::Policy::Fifo }
  } else {
    pool::Schedule::Seeded { rng: Rng::new(sc.knobs.sched_seed), policy: pool::Policy::Uniform { stick: 0 } }
  };
  pool::install(pool::PoolConfig { workers: sc.knobs.workers, schedule, quantum_mean: 0 });
  samlang_heap::verif_hooks::set_gc_overrides(sc.knobs.gc_slice, sc.knobs.gc_sweep);

  let mut result = RunResult::default();
  if sc.knobs.with_std {
    result.probes.inc("runs_with_std");
  }
  if sc.knobs.workers > 1 {
    result.probes.inc("workers_gt_1");
  }
  let mut world: BTreeMap<ModName, String> = BTreeMap::new();
  let built = panics::catch(|| {
    let mut heap = Heap::new();
    let mut sources = HashMap::new();
    let mut names: Vec<(ModName, String)> = Vec::new();
    if sc.knobs.with_std {
      for (mr, text) in samlang_parser::builtin_std_raw_sources(&mut heap) {
        let name: ModName = mr.get_parts(&heap).iter().map(|p| p.as_str(&heap).to_string()).collect();
        names.push((name, text.clone()));
        sources.insert(mr, text);
      }
    }
    for (m, t) in &sc.initial {
      let mr = heap.alloc_module_reference_from_string_vec(m.clone());
      sources.insert(mr, t.clone());
      names.push((m.clone(), t.clone()));
    }
    (ServerState::new(heap, false, sources), names)
  });
  let (state, names) = match built {
    Ok(x) => x,
    Err(pr) => {
      if mode == Mode::C11 {
        result.violations.push(Found {
          signature: panic_signature("ServerState::new", &pr),
          op_index: 0,
          detail: format!("ServerState::new panicked at {}: {}", pr.place(), pr.message),
        });
      }
      pool::uninstall();
      samlang_heap::verif_hooks::set_gc_overrides(0, 0);
      return result;
    }
  };
  for (n, t) in names {
    world.insert(n, t);
  }
  let last_unused = unused_slots(&state.heap);
  let mut ex = Exec {
    mode,
    state,
    world,
    result,
    digest: Fnv::new(),
    kind_digest: Fnv::new(),
    trace,
    last_unused,
    reclaimed_total: 0,
    hash_seed: sc.knobs.hash_seed,
    ever_removed: BTreeSet::new(),
    stop: false,
    knob_tag: format!("{}/{}", sc.knobs.gc_slice, sc.knobs.gc_sweep),
  };
  let tag = ex.knob_tag.clone();
  ex.kind_digest.str(&tag);
  if mode == Mode::C11 {
    // a server that has just started must answer queries on never-edited modules
    ex.readout(0);
  }

  for (i, op) in sc.ops.iter().enumerate() {
    if ex.stop {
      break;
    }
    ex.result.steps += 1;
    ex.kind_digest.str(op.kind());
    ex.digest.str(op.kind());
    match op {
      Op::Update(ms) => {
        if ms.iter().any(|(m, _)| ex.state.get_errors(&ex.resolve_readonly(m)).iter().any(|e| e.is_syntax_error())) {
          ex.result.probes.inc("update_of_module_with_syntax_errors");
        }
        step_mutation(&mut ex, i, op);
      }
      Op::Rename(_) | Op::Remove(_) => step_mutation(&mut ex, i, op),
      Op::Query { kind, module, line, col, arg } => ex.run_query(i, kind, module, *line, *col, arg),
      Op::ApplyActions { module, pick } => crate::workload::c16::apply_actions(&mut C16Access { ex: &mut ex }, i, module, *pick),
      Op::ApplyCompletion { module, line, col, pick } => {
        crate::workload::c16::apply_completion(&mut C16Access { ex: &mut ex }, i, module, *line, *col, *pick)
      }
    }
  }
  let report = pool::uninstall();
  samlang_heap::verif_hooks::set_gc_overrides(0, 0);
  if let Some(r) = report {
    ex.result.steps += r.stats.decisions;
    ex.digest.u64(r.decisions.len() as u64);
    for d in &r.decisions {
      ex.digest.u64(*d as u64);
    }
  }
  ex.result.digest = ex.digest.finish();
  if mode == Mode::C11 {
    ex.result.nontrivial = ex.reclaimed_total > 0 && (ex.result.probes.get("query_after_reclaim") + ex.result.probes.get("readout_after_reclaim")) > 0;
  }
  if mode != Mode::C16 {
    let d = ex.kind_digest.finish();
    ex.result.distinct_digests.push(d);
  }
  ex.result
}

fn step_mutation(ex: &mut Exec, i: usize, op: &Op) {
  let before = if ex.mode == Mode::C10 {
    panics::catch(|| render_all(&ex.state)).unwrap_or_default()
  } else {
    BTreeMap::new()
  };
  if !ex.mutate(i, op) {
    return;
  }
  let reclaimed = ex.observe_gc();
  ex.kind_digest.u64(reclaimed);
  if ex.trace.is_some() && std::env::var("VERIF_DUMP").is_ok() {
    let r = panics::catch(|| render_all(&ex.state)).unwrap_or_default();
    let f = panics::catch(|| fresh_render(&ex.world)).unwrap_or_default();
    let short = |r: &Rendered| -> Value {
      json!(r.iter().map(|(m, e)| (m.clone(), json!(e.iter().map(|x| x.0.split(" | ").take(2).collect::<Vec<_>>().join(" | ")).collect::<Vec<_>>()))).collect::<serde_json::Map<_, _>>())
    };
    ex.log(i, json!({"dump_incremental": short(&r), "dump_fresh": short(&f)}));
  }
  ex.log(i, json!({"op": op.summary(), "gc_reclaimed": reclaimed}));
  match ex.mode {
    Mode::C10 => ex.compare_with_fresh(i, op, &before),
    Mode::C11 => ex.readout(i),
    Mode::C16 => {}
  }
}

/// narrow access for the C16 closed loop (workload::c16)
pub struct C16Access<'b, 'a> {
  ex: &'b mut Exec<'a>,
}

impl<'b, 'a> C16Access<'b, 'a> {
  pub fn state(&self) -> &ServerState {
    &self.ex.state
  }
  pub fn resolve(&self, m: &ModName) -> Option<ModuleReference> {
    self.ex.state.heap.get_allocated_module_reference_opt(m.clone())
  }
  pub fn text_of(&self, m: &ModName) -> Option<String> {
    self.ex.world.get(m).cloned()
  }
  pub fn world(&self) -> &BTreeMap<ModName, String> {
    &self.ex.world
  }
  pub fn probe(&mut self, name: &str) {
    self.ex.result.probes.inc(name);
  }
  pub fn violation(&mut self, i: usize, signature: String, detail: String) {
    if self.ex.mode == Mode::C16 {
      self.ex.violation(i, signature, detail);
    }
  }
  pub fn panic(&mut self, i: usize, api: &str, pr: PanicRecord) {
    self.ex.c11_panic(i, api, pr, false);
  }
  pub fn send_update(&mut self, i: usize, m: &ModName, text: String) -> bool {
    let op = Op::Update(vec![(m.clone(), text)]);
    let ok = self.ex.mutate(i, &op);
    if ok {
      self.ex.observe_gc();
    }
    ok
  }
  pub fn distinct(&mut self, digest: u64) {
    self.ex.result.distinct_digests.push(digest);
    self.ex.result.nontrivial = true;
  }
  pub fn log(&mut self, i: usize, what: Value) {
    self.ex.log(i, what);
  }
  pub fn digest_str(&mut self, s: &str) {
    self.ex.digest.str(s);
  }
  pub fn history_len(&self) -> u64 {
    self.ex.result.steps
  }
}
