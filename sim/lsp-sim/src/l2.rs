//! L2: the same world as L1 driven through the real LSP stack (DESIGN 3.4, 4.2, 4.3).
//!
//! Real code: cli/main.rs `Backend` (every handler, URI <-> module mapping, publish_diagnostics),
//! tower-lsp 0.20 (codec, router, `Server::serve`), `tokio::sync::RwLock`, and everything L1 runs.
//! Simulated: stdin/stdout (in-memory pipes whose every poll_read / poll_write is decided by the
//! transport stream: bytes transferred, or Pending and a later re-poll), the tokio runtime (a
//! two-task executor that decides whether the server future or the client acts next), the editor
//! (a scripted client that writes files into a scratch directory and speaks JSON-RPC), the disk
//! (a per-session scratch directory, single writer).

use crate::exec::{Knobs, Mode, Op, RunResult, Scenario};
use crate::gen::{mod_display, ModName};
use samlang_heap::Heap;
use samlang_services::server_state::ServerState;
use serde_json::{json, Value};
use simcore::panics;
use simcore::pool;
use simcore::rng::Rng;
use simcore::Fnv;
use std::cell::RefCell;
use std::collections::{BTreeMap, BTreeSet, HashMap, VecDeque};
use std::future::Future;
use std::path::{Path, PathBuf};
use std::pin::Pin;
use std::rc::Rc;
use std::sync::atomic::{AtomicBool, Ordering};
use std::sync::Arc;
use std::task::{Context, Poll, Wake, Waker};

struct Wire {
  c2s: VecDeque<u8>,
  s2c: VecDeque<u8>,
  c2s_closed: bool,
  rng: Rng,
  /// the server returned Pending although progress was possible: it must be polled again
  stalled: bool,
  /// bytes arrived for the server since it last looked
  input_pending: bool,
  short_reads: u64,
  short_writes: u64,
  stalls: u64,
  stall_rate: usize,
}

struct ServerIn(Rc<RefCell<Wire>>);
struct ServerOut(Rc<RefCell<Wire>>);
// SAFETY: the server future, both pipe ends and the executor live on one thread for the whole
// session; tower-lsp only asks for Send because real transports cross threads.
unsafe impl Send for ServerIn {}
unsafe impl Send for ServerOut {}
unsafe impl Sync for ServerOut {}

impl tokio::io::AsyncRead for ServerIn {
  fn poll_read(self: Pin<&mut Self>, _cx: &mut Context<'_>, buf: &mut tokio::io::ReadBuf<'_>) -> Poll<std::io::Result<()>> {
    let mut w = self.0.borrow_mut();
    if w.c2s.is_empty() {
      if w.c2s_closed {
        return Poll::Ready(Ok(())); // EOF
      }
      w.input_pending = false;
      return Poll::Pending;
    }
    let rate = w.stall_rate;
    if rate > 0 && w.rng.below(100) < rate {
      w.stalled = true;
      w.stalls += 1;
      return Poll::Pending;
    }
    let max = w.c2s.len().min(buf.remaining());
    let k = match w.rng.below(4) {
      0 => 1,
      1 => w.rng.range(1, max.min(7).max(1)),
      2 => w.rng.range(1, max),
      _ => max,
    };
    if k < max {
      w.short_reads += 1;
    }
    for _ in 0..k {
      let b = w.c2s.pop_front().unwrap();
      buf.put_slice(&[b]);
    }
    if !w.c2s.is_empty() {
      w.input_pending = true;
    }
    Poll::Ready(Ok(()))
  }
}

impl tokio::io::AsyncWrite for ServerOut {
  fn poll_write(self: Pin<&mut Self>, _cx: &mut Context<'_>, data: &[u8]) -> Poll<std::io::Result<usize>> {
    let mut w = self.0.borrow_mut();
    if data.is_empty() {
      return Poll::Ready(Ok(0));
    }
    let rate = w.stall_rate;
    if rate > 0 && w.rng.below(100) < rate {
      w.stalled = true;
      w.stalls += 1;
      return Poll::Pending;
    }
    let k = match w.rng.below(4) {
      0 => 1,
      1 => w.rng.range(1, data.len().min(9)),
      2 => w.rng.range(1, data.len()),
      _ => data.len(),
    };
    if k < data.len() {
      w.short_writes += 1;
    }
    w.s2c.extend(&data[..k]);
    Poll::Ready(Ok(k))
  }
  fn poll_flush(self: Pin<&mut Self>, _cx: &mut Context<'_>) -> Poll<std::io::Result<()>> {
    Poll::Ready(Ok(()))
  }
  fn poll_shutdown(self: Pin<&mut Self>, _cx: &mut Context<'_>) -> Poll<std::io::Result<()>> {
    Poll::Ready(Ok(()))
  }
}

struct FlagWaker(AtomicBool);
impl Wake for FlagWaker {
  fn wake(self: Arc<Self>) {
    self.0.store(true, Ordering::SeqCst);
  }
  fn wake_by_ref(self: &Arc<Self>) {
    self.0.store(true, Ordering::SeqCst);
  }
}

// ------------------------------------------------------------------------------------------------
// client

#[derive(Clone, Debug)]
enum Step {
  /// bytes to send; `expects` = request id whose response must arrive before the session may end
  Frame { bytes: Vec<u8>, expects: Option<u64>, label: String },
  /// wait until every outstanding response has arrived and the server is quiescent; then, when
  /// `check` is set, compare the accumulated diagnostics with a fresh analysis of the world
  Barrier { check: bool, label: String },
  /// C16 closed loop, phase 1 (at quiescence): ask for code actions at an unresolved-class
  /// diagnostic the client holds for `module`, or for completion at a position
  ActionsBegin { module: ModName, pick: usize, completion: Option<(u32, u32)> },
  /// phase 2: the response has arrived; check every proposed edit, apply one, send it back
  ActionsContinue { id: u64, module: ModName, pick: usize, completion: bool },
  /// phase 3: the server has re-analysed the edited document
  ActionsVerify { module: ModName, class: String, source: String, tag: String, skip: bool, before: Vec<String> },
}

fn frame(v: &Value) -> Vec<u8> {
  let body = serde_json::to_vec(v).unwrap();
  let mut out = format!("Content-Length: {}\r\n\r\n", body.len()).into_bytes();
  out.extend(body);
  out
}

struct Session {
  root: PathBuf,
  world: BTreeMap<ModName, String>,
  steps: Vec<Step>,
  next_id: u64,
}

/// the URI an editor sends for a file: percent-encoded (spaces, non-ASCII letters, `#`, `?` in file
/// names), exactly as the `url` crate — which the server uses for the URIs it publishes — writes it
fn file_uri(p: &std::path::Path) -> String {
  url::Url::from_file_path(p).map(|u| u.to_string()).unwrap_or_else(|_| format!("file://{}", p.display()))
}

impl Session {
  fn path_of(&self, m: &ModName) -> PathBuf {
    let mut p = self.root.clone();
    for (i, part) in m.iter().enumerate() {
      if i + 1 == m.len() {
        p.push(format!("{part}.sam"));
      } else {
        p.push(part);
      }
    }
    p
  }
  fn uri_of(&self, m: &ModName) -> String {
    // documents that are not files of the workspace: an editor sends requests for whatever the
    // user has open
    match m.first().map(|s| s.as_str()) {
      Some("<outside>") => "file:///tmp/verif-l2-elsewhere/NotInTheWorkspace.sam".to_string(),
      Some("<untitled>") => "untitled:Untitled-1".to_string(),
      Some("<rootdir>") => format!("file://{}", self.root.display()),
      Some("<short>") => format!("file://{}/a", self.root.display()),
      _ => file_uri(&self.path_of(m)),
    }
  }
  fn write_file(&self, m: &ModName, text: &str) {
    let p = self.path_of(m);
    if let Some(d) = p.parent() {
      let _ = std::fs::create_dir_all(d);
    }
    std::fs::write(&p, text).expect("write scratch file");
  }
  fn notify(&mut self, method: &str, params: Value, label: &str) {
    let msg = if params.is_null() { json!({"jsonrpc": "2.0", "method": method}) } else { json!({"jsonrpc": "2.0", "method": method, "params": params}) };
    self.steps.push(Step::Frame { bytes: frame(&msg), expects: None, label: label.to_string() });
  }
  fn request(&mut self, method: &str, params: Value, label: &str) -> u64 {
    self.next_id += 1;
    let id = self.next_id;
    let msg = if params.is_null() { json!({"jsonrpc": "2.0", "id": id, "method": method}) } else { json!({"jsonrpc": "2.0", "id": id, "method": method, "params": params}) };
    self.steps.push(Step::Frame { bytes: frame(&msg), expects: Some(id), label: label.to_string() });
    id
  }
}

/// Disk effects and frames are produced lazily, step by step, so that the scratch directory is in
/// the state the notification describes when it is sent. For that the script is a list of closures
/// over ops; simpler: pre-compute (disk action, frames) pairs per op.
enum Disk {
  Write(ModName, String),
  Rename(ModName, ModName),
  Delete(ModName),
}

struct Planned {
  disk: Vec<Disk>,
  frames: Vec<Step>,
}

fn plan_op(sess: &mut Session, op: &Op, rng: &mut Rng, stats: &mut simcore::report::Counters) -> Planned {
  let before = sess.steps.len();
  let mut disk = Vec::new();
  match op {
    Op::Update(ms) => {
      let mut created: Vec<ModName> = Vec::new();
      for (m, text) in ms {
        if rng.chance(1, 60) {
          // a change notification for a document that is not a file of the workspace (a `.sam`
          // file opened from elsewhere, an untitled buffer — what an editor's language selector
          // lets through; the extension-less `<rootdir>` and `<short>` URIs are used for requests
          // only, since a change notification for them would *create* a module with an empty name)
          stats.inc("l2_did_change_of_foreign_document");
          let foreign: ModName = vec![rng.pick(&["<outside>", "<untitled>"]).to_string()];
          let uri = sess.uri_of(&foreign);
          sess.notify("textDocument/didChange", json!({"textDocument": {"uri": uri, "version": 1}, "contentChanges": [{"text": text}]}), "didChange(foreign)");
        }
        disk.push(Disk::Write(m.clone(), text.clone()));
        let known = sess.world.contains_key(m);
        sess.world.insert(m.clone(), text.clone());
        if !known && rng.chance(1, 2) {
          created.push(m.clone());
        } else {
          let uri = sess.uri_of(m);
          // several content changes: the last one is the document (TextDocumentSyncKind::FULL)
          let changes = if rng.chance(1, 5) { json!([{"text": "class Superseded {}"}, {"text": text}]) } else { json!([{"text": text}]) };
          sess.notify("textDocument/didChange", json!({"textDocument": {"uri": uri, "version": 1}, "contentChanges": changes}), "didChange");
        }
      }
      if !created.is_empty() {
        stats.inc("l2_did_create_files");
        let files: Vec<Value> = created.iter().map(|m| json!({"uri": sess.uri_of(m)})).collect();
        sess.notify("workspace/didCreateFiles", json!({"files": files}), "didCreateFiles");
      }
    }
    Op::Rename(ps) => {
      let mut files = Vec::new();
      for (a, b) in ps {
        files.push(json!({"oldUri": sess.uri_of(a), "newUri": sess.uri_of(b)}));
        if let Some(t) = sess.world.remove(a) {
          disk.push(Disk::Rename(a.clone(), b.clone()));
          sess.world.insert(b.clone(), t);
        }
      }
      stats.inc("l2_did_rename_files");
      sess.notify("workspace/didRenameFiles", json!({"files": files}), "didRenameFiles");
    }
    Op::Remove(ms) => {
      let mut files = Vec::new();
      for m in ms {
        files.push(json!({"uri": sess.uri_of(m)}));
        if sess.world.remove(m).is_some() {
          disk.push(Disk::Delete(m.clone()));
        } else {
          stats.inc("l2_delete_of_file_unknown_to_server");
        }
      }
      stats.inc("l2_did_delete_files");
      sess.notify("workspace/didDeleteFiles", json!({"files": files}), "didDeleteFiles");
    }
    Op::Query { kind, module, line, col, arg } => {
      let uri = sess.uri_of(module);
      let td = json!({"uri": uri});
      let pos = json!({"line": line, "character": col});
      let tdp = json!({"textDocument": td, "position": pos});
      match kind.as_str() {
        "hover" => sess.request("textDocument/hover", tdp, "hover"),
        "signature_help" => sess.request("textDocument/signatureHelp", tdp, "signatureHelp"),
        "definition" => sess.request("textDocument/definition", tdp, "definition"),
        "references" => sess.request("textDocument/references", json!({"textDocument": td, "position": pos, "context": {"includeDeclaration": true}}), "references"),
        "folding" => sess.request("textDocument/foldingRange", json!({"textDocument": td}), "foldingRange"),
        "complete" => sess.request("textDocument/completion", tdp, "completion"),
        "code_actions" => sess.request("textDocument/codeAction", json!({"textDocument": td, "range": {"start": pos, "end": pos}, "context": {"diagnostics": []}}), "codeAction"),
        "format" => sess.request("textDocument/formatting", json!({"textDocument": td, "options": {"tabSize": 2, "insertSpaces": true}}), "formatting"),
        _ => sess.request("textDocument/rename", json!({"textDocument": td, "position": pos, "newName": arg}), "rename"),
      };
      stats.inc("l2_requests");
    }
    Op::ApplyActions { module, pick } => {
      sess.steps.push(Step::ActionsBegin { module: module.clone(), pick: *pick, completion: None });
    }
    Op::ApplyCompletion { module, line, col, pick } => {
      sess.steps.push(Step::ActionsBegin { module: module.clone(), pick: *pick, completion: Some((*line, *col)) });
    }
  }
  let frames = sess.steps.split_off(before);
  Planned { disk, frames }
}

// ------------------------------------------------------------------------------------------------
// diagnostics comparison (text-level canonicalisation: finding F7)

fn canon_text(text: &str) -> String {
  let mut lines: Vec<String> = text.split('\n').map(|s| s.to_string()).collect();
  let mut i = 0;
  while i < lines.len() {
    if lines[i].starts_with("- `") {
      let mut j = i;
      while j < lines.len() && lines[j].starts_with("- `") {
        j += 1;
      }
      lines[i..j].sort();
      i = j;
    } else {
      if let Some(k) = lines[i].find("Here is an example of a non-matching value: `") {
        lines[i].truncate(k);
      }
      if lines[i].contains("Or-pattern alternatives") {
        if let Some(a) = lines[i].find("Expected bindings: [") {
          lines[i].truncate(a);
        }
      }
      i += 1;
    }
  }
  lines.join("\n")
}

fn kind_from_text(text: &str) -> &'static str {
  if text.contains("must be implemented for the class") {
    "MissingClassMemberDefinitions"
  } else if text.contains("names have not been mentioned") {
    "NonExhaustiveStructBinding"
  } else if text.contains("non-matching value") {
    "NonExhaustiveMatch"
  } else if text.contains("Or-pattern alternatives") {
    "OrPatternInconsistentBindings"
  } else if text.contains("Cannot resolve class") {
    "CannotResolveClass"
  } else if text.contains("Cannot resolve module") {
    "CannotResolveModule"
  } else if text.contains("Cannot resolve member") {
    "CannotResolveMember"
  } else if text.contains("Cannot resolve name") {
    "CannotResolveName"
  } else if text.starts_with("Expected") || text.starts_with("Expecting") || text.starts_with("Unexpected") {
    "InvalidSyntax"
  } else if text.contains("incompatible") {
    "Stacked"
  } else {
    "other"
  }
}

type Diags = BTreeMap<String, Vec<(String, String)>>; // module -> sorted (exact, canonical)

fn fresh_diags(world: &BTreeMap<ModName, String>, with_std: bool) -> Diags {
  pool::suspended(|| {
    let mut heap = Heap::new();
    let mut sources = HashMap::new();
    if with_std {
      for (mr, text) in samlang_parser::builtin_std_raw_sources(&mut heap) {
        sources.insert(mr, text);
      }
    }
    for (m, t) in world {
      let mr = heap.alloc_module_reference_from_string_vec(m.clone());
      sources.insert(mr, t.clone());
    }
    let fresh = ServerState::new(heap, false, sources);
    let mut out = BTreeMap::new();
    for m in world.keys() {
      let Some(mr) = fresh.heap.get_allocated_module_reference_opt(m.clone()) else { continue };
      let mut v: Vec<(String, String)> = fresh
        .get_errors(&mr)
        .iter()
        .map(|e| {
          let ide = e.to_ide_format(&fresh.heap, &fresh.string_sources);
          let loc = format!("{}:{}-{}:{}", ide.location.start.0, ide.location.start.1, ide.location.end.0, ide.location.end.1);
          (format!("{loc} | {} | {}", ide.ide_error, ide.full_error), format!("{loc} | {} | {}", canon_text(&ide.ide_error), canon_text(&ide.full_error)))
        })
        .collect();
      v.sort();
      out.insert(mod_display(m), v);
    }
    out
  })
}

fn published_to_diags(world: &BTreeMap<ModName, String>, sess_uri: &dyn Fn(&ModName) -> String, published: &HashMap<String, Value>) -> Diags {
  let mut out = BTreeMap::new();
  for m in world.keys() {
    let uri = sess_uri(m);
    let mut v: Vec<(String, String)> = Vec::new();
    if let Some(arr) = published.get(&uri).and_then(|d| d.as_array()) {
      for d in arr {
        let r = &d["range"];
        let loc = format!("{}:{}-{}:{}", r["start"]["line"], r["start"]["character"], r["end"]["line"], r["end"]["character"]);
        let msg = d["message"].as_str().unwrap_or("");
        let rendered = d["data"]["rendered"].as_str().unwrap_or("");
        v.push((format!("{loc} | {msg} | {rendered}"), format!("{loc} | {} | {}", canon_text(msg), canon_text(rendered))));
      }
    }
    v.sort();
    out.insert(mod_display(m), v);
  }
  out
}

// ------------------------------------------------------------------------------------------------

/// The scratch directory of a session. Its path has a **fixed length** and does not depend on
/// where /verif lives: the path is part of every URI, so its length decides frame sizes, and frame
/// sizes decide how the transport stream splits reads and writes — a path of another length would
/// be another schedule, and a replay in a fresh process (other pid) or from a `vp run` snapshot
/// (other root) would not reproduce.
fn scratch_root(tag: &str) -> PathBuf {
  static COUNTER: std::sync::atomic::AtomicU64 = std::sync::atomic::AtomicU64::new(0);
  let n = COUNTER.fetch_add(1, Ordering::SeqCst);
  let h = simcore::rng::mix(simcore::rng::mix(std::process::id() as u64, n), simcore::fnv_str(tag));
  let dir = PathBuf::from(format!("/tmp/verif-l2-work/{h:016x}"));
  let _ = std::fs::remove_dir_all(&dir);
  std::fs::create_dir_all(&dir).expect("create scratch dir");
  let canon = std::fs::canonicalize(&dir).expect("canonicalize scratch dir");
  assert_eq!(canon, dir, "scratch directory must not be behind a symlink");
  canon
}

/// Execute one scenario through the full LSP stack.
pub fn execute_l2(sc: &Scenario, mode: Mode, tag: &str, mut trace: Option<&mut Vec<Value>>) -> RunResult {
  let knobs: &Knobs = &sc.knobs;
  simcore::hashseed::enter(knobs.hash_seed);
  pool::install(pool::PoolConfig {
    workers: 1,
    schedule: pool::Schedule::Seeded { rng: Rng::new(knobs.sched_seed), policy: if knobs.policy == "fifo" { pool::Policy::Fifo } else { pool::Policy::Uniform { stick: 0 } } },
    quantum_mean: 0,
  });
  samlang_heap::verif_hooks::set_gc_overrides(knobs.gc_slice, knobs.gc_sweep);
  let mut result = RunResult::default();
  let mut exec_rng = Rng::new(simcore::rng::mix(knobs.sched_seed, 0xE8EC));
  let fifo = knobs.policy == "fifo";
  let root = scratch_root(tag);
  let mut sess = Session { root: root.clone(), world: BTreeMap::new(), steps: Vec::new(), next_id: 0 };

  // initial state, built the way runners::lsp does
  let built = panics::catch(|| {
    let mut heap = Heap::new();
    let mut sources = HashMap::new();
    if knobs.with_std {
      for (mr, text) in samlang_parser::builtin_std_raw_sources(&mut heap) {
        sources.insert(mr, text);
      }
    }
    for (m, t) in &sc.initial {
      let mr = heap.alloc_module_reference_from_string_vec(m.clone());
      sources.insert(mr, t.clone());
    }
    ServerState::new(heap, false, sources)
  });
  let state = match built {
    Ok(s) => s,
    Err(_) => {
      pool::uninstall();
      samlang_heap::verif_hooks::set_gc_overrides(0, 0);
      let _ = std::fs::remove_dir_all(&root);
      return result;
    }
  };
  for (m, t) in &sc.initial {
    sess.write_file(m, t);
    sess.world.insert(m.clone(), t.clone());
  }

  let wire = Rc::new(RefCell::new(Wire {
    c2s: VecDeque::new(),
    s2c: VecDeque::new(),
    c2s_closed: false,
    rng: Rng::new(simcore::rng::mix(knobs.sched_seed, 0x7A05)),
    stalled: false,
    input_pending: false,
    short_reads: 0,
    short_writes: 0,
    stalls: 0,
    stall_rate: if fifo { 0 } else { *exec_rng.pick(&[0usize, 5, 20]) },
  }));
  let mut server: Pin<Box<dyn Future<Output = ()>>> =
    Box::pin(samlang_cli_lib::verif_hooks::serve(ServerIn(wire.clone()), ServerOut(wire.clone()), root.clone(), state));
  let flag = Arc::new(FlagWaker(AtomicBool::new(true)));
  let waker = Waker::from(flag.clone());
  let mut server_done = false;

  // script
  let mut stats = simcore::report::Counters::default();
  let mut script: VecDeque<(Vec<Disk>, Step)> = VecDeque::new();
  let init_id = sess.request("initialize", json!({"processId": null, "rootUri": format!("file://{}", root.display()), "capabilities": {}}), "initialize");
  let _ = init_id;
  for s in sess.steps.split_off(0) {
    script.push_back((Vec::new(), s));
  }
  script.push_back((Vec::new(), Step::Barrier { check: false, label: "after initialize".into() }));
  sess.notify("initialized", json!({}), "initialized");
  for s in sess.steps.split_off(0) {
    script.push_back((Vec::new(), s));
  }
  script.push_back((Vec::new(), Step::Barrier { check: true, label: "after initialized".into() }));
  let max_inflight = if fifo { 1 } else { exec_rng.range(1, 6) };
  let mut plan_rng = Rng::new(simcore::rng::mix(knobs.sched_seed, 0x914A));
  for op in &sc.ops {
    let planned = plan_op(&mut sess, op, &mut plan_rng, &mut stats);
    let mut disk = Some(planned.disk);
    let planned_labels: Vec<String> = planned.frames.iter().filter_map(|f| if let Step::Frame { label, .. } = f { Some(label.clone()) } else { None }).collect();
    let is_mutation = !matches!(op, Op::Query { .. });
    for f in planned.frames {
      script.push_back((disk.take().unwrap_or_default(), f));
    }
    // didCreateFiles makes the server read the file from disk when it *processes* the notification;
    // the client therefore lets the server drain before it touches the disk again (otherwise the
    // simulated editor itself races with the server and the client's model of the server's inputs
    // is wrong — a harness artefact, found at seed 600)
    let reads_disk = matches!(planned_labels.as_slice(), l if l.iter().any(|x| x == "didCreateFiles"));
    // C10: change notifications carry their text, so several of them may be in flight together
    // (the server has to handle notifications in the order sent); the comparison with a fresh
    // server happens at the next barrier, for the world after all of them
    let only_did_change = !planned_labels.is_empty() && planned_labels.iter().all(|x| x.starts_with("didChange"));
    let c10_pipelined = mode == Mode::C10 && !fifo && only_did_change && plan_rng.chance(1, 2);
    if c10_pipelined {
      stats.inc("l2_change_notifications_in_flight_together");
    } else if is_mutation && (mode != Mode::C11 || fifo || reads_disk || plan_rng.chance(1, 3)) {
      script.push_back((Vec::new(), Step::Barrier { check: true, label: format!("after {}", op.kind()) }));
    } else if is_mutation {
      // C11: notifications and requests are pipelined freely (a writer queued between two readers
      // is what lock-ordering mistakes need)
      stats.inc("l2_notification_pipelined_with_requests");
    } else if plan_rng.chance(1, max_inflight) {
      script.push_back((Vec::new(), Step::Barrier { check: false, label: "drain".into() }));
    }
  }
  script.push_back((Vec::new(), Step::Barrier { check: mode == Mode::C10, label: "before shutdown".into() }));
  sess.request("shutdown", Value::Null, "shutdown");
  for s in sess.steps.split_off(0) {
    script.push_back((Vec::new(), s));
  }
  script.push_back((Vec::new(), Step::Barrier { check: false, label: "after shutdown".into() }));
  sess.notify("exit", Value::Null, "exit");
  for s in sess.steps.split_off(0) {
    script.push_back((Vec::new(), s));
  }
  // the world as the client believes it after each planned op is what `sess.world` ends with; the
  // comparison at a barrier needs the world *at that point*: replay world changes as steps are sent
  let final_world = sess.world.clone();
  let _ = final_world;
  let mut world_now: BTreeMap<ModName, String> = sc.initial.iter().cloned().collect();

  let mut outstanding: BTreeSet<u64> = BTreeSet::new();
  let mut sending: Option<(Vec<u8>, usize)> = None; // frame being written, offset
  let mut inbox: Vec<u8> = Vec::new();
  let mut published: HashMap<String, Value> = HashMap::new();
  let mut responses: HashMap<u64, Value> = HashMap::new();
  let mut digest = Fnv::new();
  let mut steps: u64 = 0;
  let mut messages_sent: u64 = 0;
  let budget_per_message: u64 = 10_000;
  let mut stopped_by_violation = false;
  let mut error_responses: u64 = 0;

  loop {
    steps += 1;
    if steps > budget_per_message * (messages_sent + 2) {
      if mode == Mode::C11 {
        result.violations.push(crate::exec::Found {
          signature: "l2|no_progress|liveness_bound_exceeded".into(),
          op_index: messages_sent as usize,
          detail: format!("the server did not reach quiescence within {} executor steps after {} messages; outstanding request ids {:?}", steps, messages_sent, outstanding),
        });
      }
      break;
    }
    // parse whatever the client has received
    loop {
      let Some(hdr_end) = inbox.windows(4).position(|w| w == b"\r\n\r\n") else { break };
      let header = String::from_utf8_lossy(&inbox[..hdr_end]).to_string();
      let len: usize = header.lines().find_map(|l| l.strip_prefix("Content-Length: ").and_then(|x| x.trim().parse().ok())).unwrap_or(0);
      if inbox.len() < hdr_end + 4 + len {
        break;
      }
      let body: Vec<u8> = inbox[hdr_end + 4..hdr_end + 4 + len].to_vec();
      inbox.drain(..hdr_end + 4 + len);
      let Ok(v) = serde_json::from_slice::<Value>(&body) else { continue };
      if let Some(id) = v.get("id").and_then(|x| x.as_u64()) {
        if v.get("method").is_none() {
          outstanding.remove(&id);
          if v.get("error").is_some() {
            error_responses += 1;
          }
          digest.u64(id);
          // the scratch directory's name differs per process; it is not part of the behaviour
          digest.str(&v.get("result").map(|r| r.to_string()).unwrap_or_else(|| v["error"].to_string()).replace(&root.display().to_string(), "<root>"));
          responses.insert(id, v.get("result").cloned().unwrap_or(Value::Null));
          if let Some(t) = trace.as_deref_mut() {
            t.push(json!({"response": id, "result": v.get("result"), "error": v.get("error")}));
          }
        }
      } else if v["method"] == "textDocument/publishDiagnostics" {
        let uri = v["params"]["uri"].as_str().unwrap_or("").to_string();
        published.insert(uri, v["params"]["diagnostics"].clone());
      }
    }

    let server_runnable = !server_done && (flag.0.load(Ordering::SeqCst) || wire.borrow().stalled || (wire.borrow().input_pending && !wire.borrow().c2s.is_empty()));
    let can_read = !wire.borrow().s2c.is_empty();
    // what may the client send next?
    let mut can_send = false;
    if sending.is_some() {
      can_send = true;
    } else if let Some((_, step)) = script.front() {
      match step {
        Step::Frame { expects, .. } => {
          can_send = outstanding.len() < max_inflight || expects.is_none();
        }
        _ => {}
      }
    }
    // a barrier is passed only at quiescence
    if !server_runnable && !can_read && sending.is_none() {
      // C16 closed loop through the real stack
      if outstanding.is_empty() && !server_done {
        let dynamic = matches!(script.front(), Some((_, Step::ActionsBegin { .. } | Step::ActionsContinue { .. } | Step::ActionsVerify { .. })));
        if dynamic {
          let (_, step) = script.pop_front().unwrap();
          let uri_of = |m: &ModName| -> String {
            let mut p = root.clone();
            for (i, part) in m.iter().enumerate() {
              if i + 1 == m.len() { p.push(format!("{part}.sam")) } else { p.push(part) }
            }
            format!("file://{}", p.display())
          };
          let messages_of = |published: &HashMap<String, Value>, m: &ModName| -> Vec<(Value, String)> {
            published
              .get(&uri_of(m))
              .and_then(|d| d.as_array())
              .map(|a| a.iter().map(|d| (d["range"].clone(), d["message"].as_str().unwrap_or("").to_string())).collect())
              .unwrap_or_default()
          };
          match step {
            Step::ActionsBegin { module, pick, completion } => {
              let text_ok = world_now.get(&module).map(|t| t.is_ascii()).unwrap_or(false);
              if text_ok {
                let request = match completion {
                  Some((line, col)) => Some(("textDocument/completion", json!({"textDocument": {"uri": uri_of(&module)}, "position": {"line": line, "character": col}}))),
                  None => messages_of(&published, &module)
                    .into_iter()
                    .find(|(_, m)| m.starts_with("Cannot resolve class `"))
                    .map(|(range, _)| ("textDocument/codeAction", json!({"textDocument": {"uri": uri_of(&module)}, "range": range, "context": {"diagnostics": []}}))),
                };
                if let Some((method, params)) = request {
                  sess.next_id += 1;
                  let id = sess.next_id;
                  let bytes = frame(&json!({"jsonrpc": "2.0", "id": id, "method": method, "params": params}));
                  script.push_front((Vec::new(), Step::ActionsContinue { id, module, pick, completion: completion.is_some() }));
                  script.push_front((Vec::new(), Step::Frame { bytes, expects: Some(id), label: method.to_string() }));
                  result.probes.inc("l2_actions_requested");
                }
              }
            }
            Step::ActionsContinue { id, module, pick, completion } => {
              let old_text = world_now.get(&module).cloned().unwrap_or_default();
              let source = if completion { "completion" } else { "code_action" };
              let res = responses.get(&id).cloned().unwrap_or(Value::Null);
              let to_edits = |v: &Value| -> Vec<(samlang_ast::Location, String)> {
                v.as_array()
                  .map(|a| {
                    a.iter()
                      .map(|e| {
                        let r = &e["range"];
                        let pos = |p: &Value| samlang_ast::Position(p["line"].as_u64().unwrap_or(0) as u32, p["character"].as_u64().unwrap_or(0) as u32);
                        (
                          samlang_ast::Location { module_reference: samlang_heap::ModuleReference::DUMMY, start: pos(&r["start"]), end: pos(&r["end"]) },
                          e["newText"].as_str().unwrap_or("").to_string(),
                        )
                      })
                      .collect()
                  })
                  .unwrap_or_default()
              };
              // (class, named module, edits)
              let mut proposals: Vec<(String, Option<String>, Vec<(samlang_ast::Location, String)>)> = Vec::new();
              for item in res.as_array().cloned().unwrap_or_default() {
                if completion {
                  let edits = to_edits(&item["additionalTextEdits"]);
                  if edits.is_empty() {
                    continue;
                  }
                  let from = edits.iter().find_map(|(_, t)| {
                    let idx = t.find(" from ")?;
                    Some(t[idx + 6..].chars().take_while(|c| c.is_ascii_alphanumeric() || *c == '.' || *c == '_' || *c == '-').collect::<String>())
                  });
                  proposals.push((item["label"].as_str().unwrap_or("").to_string(), from, edits));
                } else {
                  let title = item["title"].as_str().unwrap_or("");
                  let Some((class, named)) = crate::workload::c16::title_parts(title) else { continue };
                  let changes = &item["edit"]["changes"];
                  let edits = changes.as_object().and_then(|o| o.get(&uri_of(&module))).map(|v| to_edits(v)).unwrap_or_default();
                  if changes.as_object().map(|o| o.keys().any(|k| *k != uri_of(&module))).unwrap_or(false) && mode == Mode::C16 {
                    result.violations.push(crate::exec::Found { signature: format!("{source}|edit_for_another_document|l2"), op_index: messages_sent as usize, detail: format!("L2: the workspace edit of `{title}` names a document other than the one the action was requested for") });
                  }
                  proposals.push((class, Some(named), edits));
                }
              }
              proposals.truncate(6);
              let mut candidates: Vec<(String, String, String, bool)> = Vec::new(); // class, new text, tag, skip
              for (class, named, edits) in &proposals {
                result.probes.inc("l2_actions_checked");
                let tag = crate::workload::c16::signature_tag(&old_text, class);
                let r = crate::workload::c16::check_edits(&old_text, class, named.as_deref(), edits);
                if mode == Mode::C16 {
                  for (clause, detail) in &r.failures {
                    let sig = format!("{source}|{clause}|{tag}");
                    if !result.violations.iter().any(|x| x.signature == sig) {
                      result.violations.push(crate::exec::Found { signature: sig, op_index: messages_sent as usize, detail: format!("L2 {source} for `{class}` in {}: {detail}", mod_display(&module)) });
                    }
                  }
                }
                if let Some(t) = r.new_text {
                  // clause (iv) speaks about a *class* some other module exports
                  let provider_is_class = named
                    .as_deref()
                    .and_then(|f| world_now.iter().find(|(m, _)| mod_display(m) == f).map(|(_, t)| crate::workload::c16::declares_class(t, class)))
                    .unwrap_or(false);
                  candidates.push((class.clone(), t, tag, r.old_had_syntax_errors || !r.failures.is_empty() || !provider_is_class));
                }
              }
              if !candidates.is_empty() {
                let (class, new_text, tag, skip) = candidates[pick % candidates.len()].clone();
                let before: Vec<String> = messages_of(&published, &module).into_iter().map(|x| x.1).collect();
                let bytes = frame(&json!({"jsonrpc": "2.0", "method": "textDocument/didChange", "params": {"textDocument": {"uri": uri_of(&module), "version": 2}, "contentChanges": [{"text": new_text}]}}));
                script.push_front((Vec::new(), Step::ActionsVerify { module: module.clone(), class, source: source.to_string(), tag, skip, before }));
                script.push_front((vec![Disk::Write(module, new_text)], Step::Frame { bytes, expects: None, label: "didChange(applied edit)".into() }));
                result.probes.inc("l2_actions_applied");
                result.nontrivial = true;
              }
            }
            Step::ActionsVerify { module, class, source, tag, skip, before } => {
              if !skip && mode == Mode::C16 {
                let now: Vec<String> = messages_of(&published, &module).into_iter().map(|x| x.1).collect();
                let mut report = |clause: &str, detail: String| {
                  let sig = format!("{source}|{clause}|{tag}");
                  if !result.violations.iter().any(|x| x.signature == sig) {
                    result.violations.push(crate::exec::Found { signature: sig, op_index: messages_sent as usize, detail });
                  }
                };
                if now.iter().any(|m| *m == format!("Cannot resolve class `{class}`.")) {
                  report("iv_still_unresolved", format!("L2: after applying the {source} for `{class}` to {} the class is still reported unresolved", mod_display(&module)));
                }
                for m in &now {
                  if before.contains(m) {
                    continue;
                  }
                  if m.starts_with(&format!("There is no `{class}` export in")) {
                    report("vi_new_import_error_MissingExport", format!("L2: after applying the {source} for `{class}` to {}: {m}", mod_display(&module)));
                  } else if m.starts_with("Cannot resolve module `") {
                    report("vi_new_import_error_CannotResolveModule", format!("L2: after applying the {source} for `{class}` to {}: {m}", mod_display(&module)));
                  }
                }
              }
            }
            _ => unreachable!(),
          }
          continue;
        }
      }
      let barrier = match script.front() {
        Some((_, Step::Barrier { check, label })) => Some((*check, label.clone())),
        _ => None,
      };
      if let Some((check, label)) = barrier {
        if outstanding.is_empty() || server_done {
          script.pop_front();
          if check && mode == Mode::C10 && !server_done {
            let uri_of = |m: &ModName| -> String {
              let mut p = root.clone();
              for (i, part) in m.iter().enumerate() {
                if i + 1 == m.len() { p.push(format!("{part}.sam")) } else { p.push(part) }
              }
              file_uri(&p)
            };
            let got = published_to_diags(&world_now, &uri_of, &published);
            let want = match panics::catch(|| fresh_diags(&world_now, knobs.with_std)) {
              Ok(w) => w,
              Err(_) => {
                stopped_by_violation = true;
                break;
              }
            };
            result.probes.inc("l2_quiescent_comparisons");
            if got != want {
              let gc: Diags = got.iter().map(|(m, v)| (m.clone(), { let mut x: Vec<(String, String)> = v.iter().map(|e| (e.1.clone(), String::new())).collect(); x.sort(); x })).collect();
              let wc: Diags = want.iter().map(|(m, v)| (m.clone(), { let mut x: Vec<(String, String)> = v.iter().map(|e| (e.1.clone(), String::new())).collect(); x.sort(); x })).collect();
              if gc == wc {
                for (m, v) in &got {
                  for e in v {
                    if !want.get(m).map(|w| w.iter().any(|x| x.0 == e.0)).unwrap_or(false) {
                      let k = kind_from_text(e.0.split(" | ").nth(1).unwrap_or(""));
                      // the recorded findings (F7) can only swap or choose among names of 16 bytes or more
                      let counterpart = want.get(m).and_then(|w| w.iter().find(|y| y.1 == e.1 && !v.iter().any(|z| z.0 == y.0)));
                      let f7 = counterpart.map(|y| simcore::explained_by_order_of_long_names(&e.0, &y.0)).unwrap_or(false);
                      let what = match (k == "NonExhaustiveMatch", f7) {
                        (true, true) => "counterexample_choice",
                        (true, false) => "counterexample_choice_not_by_long_names",
                        (false, true) => "list_order",
                        (false, false) => "list_order_not_by_long_names",
                      };
                      let sig = format!("{what}|{k}");
                      if !result.violations.iter().any(|x| x.signature == sig) {
                        result.violations.push(crate::exec::Found { signature: sig, op_index: messages_sent as usize, detail: format!("L2 {label}: module {m} has the same diagnostic as a fresh server up to the order / choice of listed names") });
                      }
                    }
                  }
                }
              } else {
                for m in got.keys().chain(want.keys()).collect::<BTreeSet<_>>() {
                  let empty = Vec::new();
                  let g: Vec<&String> = gc.get(m).unwrap_or(&empty).iter().map(|x| &x.0).collect();
                  let w: Vec<&String> = wc.get(m).unwrap_or(&empty).iter().map(|x| &x.0).collect();
                  for e in &g {
                    if !w.contains(e) {
                      let k = kind_from_text(e.split(" | ").nth(1).unwrap_or(""));
                      let sig = format!("l2|extra|{k}|{label}");
                      if !result.violations.iter().any(|x| x.signature == sig) {
                        result.violations.push(crate::exec::Found { signature: sig, op_index: messages_sent as usize, detail: format!("L2 {label}: the client holds a diagnostic for {m} that a fresh server does not compute: {}", e.split(" | ").take(2).collect::<Vec<_>>().join(" | ")) });
                      }
                    }
                  }
                  for e in &w {
                    if !g.contains(e) {
                      let k = kind_from_text(e.split(" | ").nth(1).unwrap_or(""));
                      let sig = format!("l2|missing|{k}|{label}");
                      if !result.violations.iter().any(|x| x.signature == sig) {
                        result.violations.push(crate::exec::Found { signature: sig, op_index: messages_sent as usize, detail: format!("L2 {label}: the client lacks a diagnostic for {m} that a fresh server computes: {}", e.split(" | ").take(2).collect::<Vec<_>>().join(" | ")) });
                      }
                    }
                  }
                }
                stopped_by_violation = true;
                break;
              }
            }
          }
          continue;
        }
      }
      if server_done {
        break;
      }
      if script.is_empty() {
        // everything was sent and consumed: close stdin; the serve future must now finish
        let mut w = wire.borrow_mut();
        if w.c2s_closed {
          break;
        }
        w.c2s_closed = true;
        drop(w);
        flag.0.store(true, Ordering::SeqCst);
        continue;
      }
      if !can_send {
        // nothing can move: outstanding requests that the server will never answer
        if mode == Mode::C11 {
          result.violations.push(crate::exec::Found {
            signature: "l2|no_progress|request_never_answered".into(),
            op_index: messages_sent as usize,
            detail: format!("server is quiescent but request ids {:?} were never answered", outstanding),
          });
        }
        break;
      }
    }
    // choose among enabled actions
    let mut actions: Vec<u8> = Vec::new();
    if server_runnable {
      actions.push(0);
    }
    if can_send {
      actions.push(1);
    }
    if can_read {
      actions.push(2);
    }
    if actions.is_empty() {
      continue;
    }
    let a = if fifo { actions[0] } else { *exec_rng.pick(&actions) };
    match a {
      0 => {
        flag.0.store(false, Ordering::SeqCst);
        wire.borrow_mut().stalled = false;
        let mut cx = Context::from_waker(&waker);
        let polled = panics::catch(|| server.as_mut().poll(&mut cx));
        match polled {
          Ok(Poll::Ready(())) => server_done = true,
          Ok(Poll::Pending) => {}
          Err(pr) => {
            if mode == Mode::C11 {
              result.violations.push(crate::exec::Found {
                signature: format!("l2|serve|{}|{}", pr.place(), pr.short_message()),
                op_index: messages_sent as usize,
                detail: format!("the language server future panicked at {}: {}", pr.place(), pr.message),
              });
            } else {
              result.probes.inc("aborted_by_panic_not_this_property");
            }
            stopped_by_violation = true;
            break;
          }
        }
      }
      1 => {
        if sending.is_none() {
          let (disk, step) = script.pop_front().unwrap();
          for d in disk {
            match d {
              Disk::Write(m, t) => {
                sess.write_file(&m, &t);
                world_now.insert(m, t);
              }
              Disk::Rename(a, b) => {
                let (pa, pb) = (sess.path_of(&a), sess.path_of(&b));
                if let Some(d) = pb.parent() {
                  let _ = std::fs::create_dir_all(d);
                }
                let _ = std::fs::rename(&pa, &pb);
                if let Some(t) = world_now.remove(&a) {
                  world_now.insert(b, t);
                }
              }
              Disk::Delete(m) => {
                let _ = std::fs::remove_file(sess.path_of(&m));
                world_now.remove(&m);
              }
            }
          }
          if let Step::Frame { bytes, expects, label } = step {
            if let Some(id) = expects {
              outstanding.insert(id);
            }
            digest.str(&label);
            if let Some(t) = trace.as_deref_mut() {
              t.push(json!({"send": label, "id": expects}));
            }
            messages_sent += 1;
            result.steps += 1;
            sending = Some((bytes, 0));
          }
        }
        if let Some((bytes, off)) = sending.take() {
          let remaining = bytes.len() - off;
          let k = if fifo { remaining } else {
            match exec_rng.below(4) {
              0 => 1.min(remaining),
              1 => exec_rng.range(1, remaining.min(20)),
              _ => remaining,
            }
          };
          {
            let mut w = wire.borrow_mut();
            w.c2s.extend(&bytes[off..off + k]);
            w.input_pending = true;
          }
          if off + k < bytes.len() {
            result.faults.inc("l2_frame_sent_in_pieces");
            sending = Some((bytes, off + k));
          }
        }
      }
      _ => {
        let mut w = wire.borrow_mut();
        let n = w.s2c.len();
        let k = if fifo { n } else { exec_rng.range(1, n) };
        for _ in 0..k {
          inbox.push(w.s2c.pop_front().unwrap());
        }
      }
    }
  }
  // close the session
  drop(server);
  let w = wire.borrow();
  result.faults.add("l2_short_reads", w.short_reads);
  result.faults.add("l2_short_writes", w.short_writes);
  result.faults.add("l2_transport_stalls", w.stalls);
  result.probes.add("l2_messages_sent", messages_sent);
  result.probes.add("l2_error_responses", error_responses);
  if max_inflight > 1 {
    result.probes.inc("l2_sessions_with_pipelining");
  }
  if server_done && !stopped_by_violation {
    result.probes.inc("l2_sessions_completed_cleanly");
  }
  result.faults.merge(&stats);
  result.steps += steps;
  let report = pool::uninstall();
  samlang_heap::verif_hooks::set_gc_overrides(0, 0);
  if let Some(r) = report {
    digest.u64(r.decisions.len() as u64);
  }
  digest.u64(steps);
  result.digest = digest.finish();
  result.nontrivial = messages_sent > 4;
  let mut f = Fnv::new();
  for op in &sc.ops {
    f.str(op.kind());
  }
  f.u64(max_inflight as u64);
  f.u64(published.len() as u64);
  result.distinct_digests.push(f.finish());
  let _ = std::fs::remove_dir_all(&root);
  result
}

pub fn declare_counters(ev: &mut simcore::report::Evidence) {
  ev.faults_fired.declare(&["l2_short_reads", "l2_short_writes", "l2_transport_stalls", "l2_frame_sent_in_pieces", "l2_did_create_files", "l2_did_rename_files", "l2_did_delete_files", "l2_delete_of_file_unknown_to_server", "l2_requests", "l2_notification_pipelined_with_requests", "l2_change_notifications_in_flight_together"]);
  ev.probes.declare(&["l2_messages_sent", "l2_error_responses", "l2_sessions_with_pipelining", "l2_sessions_completed_cleanly", "l2_quiescent_comparisons", "l2_actions_requested", "l2_actions_checked", "l2_actions_applied"]);
}

#[allow(dead_code)]
fn _unused(_: &Path) {}
