//! lsp-sim — engine for C10, C11, C16 at the ServerState level ("L1", DESIGN 3.4, 4.2–4.4).
//!
//! System under test (real code): `ServerState::{new,update,rename_module,remove,get_errors,
//! all_modules}`, `query::*`, `rewrite::*`, `completion::*`, the parser, checker and printer
//! underneath, and the incremental string GC that runs after every recheck.
//! Simulated: hash seeds (getrandom seam), rayon (simulated pool), GC slice sizes (hook H2), the
//! editor (workload + faults), the order of edits, queries and GC slices (one explicit operation
//! list per run).
//!
//! usage: lsp-sim --property C10|C11|C16 [--tier quick|thorough] [--runs N] [--seconds S]
//!                [--replay FILE [--print-signature]] [--digests FILE]

mod exec;
mod gen;
mod l2;
mod workload;

use exec::{execute, Mode, RunResult, Scenario};
use serde_json::{json, Value};
use simcore::report::{Counters, Evidence, Violation};
use simcore::rng;
use std::collections::BTreeMap;
use std::sync::atomic::AtomicBool;
use std::sync::Mutex;

simcore::install_getrandom_shim!();

pub const RUN_STACK: usize = 256 << 20;

fn arg_value(args: &[String], name: &str) -> Option<String> {
  args.iter().position(|a| a == name).and_then(|i| args.get(i + 1).cloned())
}

fn replay_json(level: &str, property: &str, seed: u64, run_index: Option<u64>, sc: &Scenario, signature: &str, detail: &str) -> Value {
  json!({
    "engine": "lsp-sim",
    "level": level,
    "property": property,
    "seed": seed,
    "run_index": run_index,
    "signature": signature,
    "detail": detail,
    "scenario": sc.to_json(),
  })
}

/// ddmin over operations, then initial modules, then lines of documents; keeps candidates that
/// still produce the same signature.
fn run_level(level: &str, sc: &Scenario, mode: Mode, trace: Option<&mut Vec<Value>>) -> RunResult {
  if level == "l2" {
    l2::execute_l2(sc, mode, &format!("m{:x}", simcore::fnv_str(&format!("{:?}", std::thread::current().id()))), trace)
  } else {
    execute(sc, mode, trace)
  }
}

fn minimise(level: &str, mode: Mode, sc: Scenario, signature: &str, budget_s: u64) -> Scenario {
  let start = std::time::Instant::now();
  let budget = std::time::Duration::from_secs(budget_s);
  let fails = |cand: &Scenario| -> bool {
    // every candidate on a fresh thread: a run's hash keys are drawn when its thread starts
    let r = simcore::runner::run_one(RUN_STACK, || run_level(level, cand, mode, None));
    r.violations.iter().any(|v| v.signature == signature)
  };
  let mut cur = sc;
  // 1. operations
  let mut chunk = (cur.ops.len() / 2).max(1);
  while start.elapsed() < budget {
    let mut i = 0;
    let mut progressed = false;
    while i < cur.ops.len() && start.elapsed() < budget {
      let end = (i + chunk).min(cur.ops.len());
      let mut cand = cur.clone();
      cand.ops.drain(i..end);
      if fails(&cand) {
        cur = cand;
        progressed = true;
      } else {
        i += chunk;
      }
    }
    if !progressed {
      if chunk == 1 {
        break;
      }
      chunk /= 2;
    }
  }
  // 2. initial modules
  let mut i = 0;
  while i < cur.initial.len() && start.elapsed() < budget {
    let mut cand = cur.clone();
    cand.initial.remove(i);
    if fails(&cand) {
      cur = cand;
    } else {
      i += 1;
    }
  }
  // 3. knobs to defaults
  for f in [
    (|s: &mut Scenario| s.knobs.workers = 1) as fn(&mut Scenario),
    |s| s.knobs.with_std = false,
    |s| s.knobs.policy = "fifo".into(),
    |s| s.knobs.hash_seed = 0,
  ] {
    let mut cand = cur.clone();
    f(&mut cand);
    if fails(&cand) {
      cur = cand;
    }
  }
  // 4. lines of documents (initial and inside update operations)
  let mut progressed = true;
  while progressed && start.elapsed() < budget {
    progressed = false;
    let n_docs = cur.doc_count();
    for d in 0..n_docs {
      let mut line = 0;
      loop {
        if start.elapsed() >= budget {
          break;
        }
        let text = cur.doc(d).to_string();
        let lines: Vec<&str> = text.split('\n').collect();
        if line >= lines.len() {
          break;
        }
        let mut kept: Vec<&str> = lines.clone();
        kept.remove(line);
        let mut cand = cur.clone();
        *cand.doc_mut(d) = kept.join("\n");
        if fails(&cand) {
          cur = cand;
          progressed = true;
        } else {
          line += 1;
        }
      }
    }
  }
  cur
}

fn main() {
  simcore::panics::install_hook();
  samlang_heap::verif_hooks::set_yield_callback(simcore::pool::yield_hook);
  let args: Vec<String> = std::env::args().skip(1).collect();
  let seed = rng::verif_seed();
  let property = arg_value(&args, "--property").unwrap_or_else(|| "C10".into());
  let mode = match property.as_str() {
    "C10" => Mode::C10,
    "C11" => Mode::C11,
    "C16" => Mode::C16,
    other => {
      eprintln!("HARNESS ERROR: lsp-sim does not serve {other}");
      std::process::exit(2)
    }
  };

  if let Some(path) = arg_value(&args, "--minimise") {
    // offline helper: shrink an existing replay file further, write <file>.min.json
    let v = simcore::report::read_json(std::path::Path::new(&path));
    let sc = Scenario::from_json(&v["scenario"]);
    let sig = v["signature"].as_str().unwrap_or("").to_string();
    let budget: u64 = arg_value(&args, "--budget").and_then(|s| s.parse().ok()).unwrap_or(300);
    let level = v["level"].as_str().unwrap_or("l1").to_string();
    let small = minimise(&level, mode, sc, &sig, budget);
    let r = simcore::runner::run_one(RUN_STACK, || run_level(&level, &small, mode, None));
    let detail = r.violations.iter().find(|x| x.signature == sig).map(|x| x.detail.clone()).unwrap_or_default();
    let out = format!("{path}.min.json");
    std::fs::write(&out, serde_json::to_string_pretty(&replay_json(&level, &property, seed, None, &small, &sig, &detail)).unwrap()).unwrap();
    println!("wrote {out}: {} ops, {} initial modules", small.ops.len(), small.initial.len());
    return;
  }

  if let Some(path) = arg_value(&args, "--replay") {
    let v = simcore::report::read_json(std::path::Path::new(&path));
    let sc = Scenario::from_json(&v["scenario"]);
    let want = v["signature"].as_str().unwrap_or("").to_string();
    let mut trace = Vec::new();
    let quiet = args.iter().any(|a| a == "--print-signature");
    let level = v["level"].as_str().unwrap_or("l1").to_string();
    let r = simcore::runner::run_one(RUN_STACK, || run_level(&level, &sc, mode, Some(&mut trace)));
    if !quiet {
      for t in &trace {
        println!("{t}");
      }
    }
    let known = simcore::report::KnownFindings::load();
    let mut rc = 0;
    for v in &r.violations {
      println!("SIGNATURE {}", v.signature);
      if let Some(what) = known.lookup(&property, &v.signature) {
        println!("KNOWN-FINDING: property={property} {} — {what}", v.signature);
      } else {
        println!("violation at op {}: {}", v.op_index, v.detail);
        rc = 1;
      }
    }
    if rc == 1 {
      println!("VIOLATION property={property} replay={path}");
    } else if r.violations.is_empty() {
      println!("replay held: no violation (expected signature `{want}`)");
    }
    std::process::exit(rc);
  }

  let tier = arg_value(&args, "--tier").unwrap_or_else(|| "quick".into());
  let thorough = tier == "thorough";
  let default_runs: u64 = match (mode, thorough) {
    (Mode::C10, false) => 9_000,
    (Mode::C11, false) => 8_000,
    (Mode::C16, false) => 6_000,
    (Mode::C10, true) => 3_000_000,
    (Mode::C11, true) => 1_000_000,
    (Mode::C16, true) => 1_000_000,
  };
  let runs: u64 = arg_value(&args, "--runs").and_then(|s| s.parse().ok()).unwrap_or(default_runs);
  let seconds: Option<u64> = arg_value(&args, "--seconds")
    .and_then(|s| s.parse().ok())
    .or(if thorough { Some(900) } else { None });
  let corpus_every: u64 = arg_value(&args, "--corpus-every").and_then(|s| s.parse().ok()).unwrap_or(match mode {
    Mode::C10 => 60,
    Mode::C11 => 40,
    Mode::C16 => 0,
  });
  let digests_path = arg_value(&args, "--digests");
  let corpus = workload::Corpus::load();

  let start = std::time::Instant::now();
  let mut ev = Evidence::new(&property, &tier, seed);
  ev.rule = match mode {
    Mode::C10 => "one run = one seeded history of update/rename/remove operations (with torn, garbled, ill-typed, duplicated, undone edits) against one long-lived ServerState; after every operation the diagnostics of every module are compared with a freshly built server. Non-trivial: diagnostics were non-empty at some step AND some operation changed the diagnostics of a module it did not name (a module rechecked without being reparsed). Distinct = FNV digest of (operation-kind sequence, per-step multiset of error kinds per module role).".to_string(),
    Mode::C11 => "one run = one seeded history of edits interleaved with queries (hover, signature help, definition, references, folding, completion, code actions, formatting, rename) under per-run GC slice sizes, with a full read-out (render every diagnostic, format every module, hover identifiers) after every edit. Non-trivial: the GC reclaimed >=1 string and a query or read-out ran after it. Distinct = FNV digest of (operation+query kind sequence, GC knob pair, strings reclaimed per step).".to_string(),
    Mode::C16 => "one run = one seeded edit history during which the simulated client asks for auto-import code actions / completion additional edits, checks and applies them to the document text and sends the result back. Non-trivial: >=1 proposed action was applied. Distinct = FNV digest of (import layout class of the document, action source, number of edits, history-length bucket) per applied action.".to_string(),
  };
  ev.components = json!({
    "real": ["samlang_services::server_state::ServerState", "samlang_services::{query,rewrite,completion}", "services/gc.rs mark + heap sweep", "samlang-parser", "samlang-checker", "samlang-printer", "samlang-errors rendering"],
    "simulated": ["hash seeds (libc getrandom seam)", "rayon -> simulated worker pool (job order / worker assignment from the schedule stream)", "GC slice sizes (hook H2, per-run knobs)", "editor / client: workload and fault streams"],
    "stubbed": ["cli/main.rs LSP glue and tower-lsp are not part of this level (see L2)"]
  });
  ev.assumptions = vec![
    "the fresh-server oracle is ServerState::new on the harness's own model of the file contents".into(),
    "diagnostics are compared as per-module multisets of rendered text (location, IDE text, terminal rendering, reference locations): publishDiagnostics carries no order semantics".into(),
    "builds mirror the shipped release profile (no debug assertions, no overflow checks)".into(),
  ];
  exec::declare_counters(&mut ev, mode);

  struct Acc {
    violations: BTreeMap<String, (u64, exec::Found, Scenario, &'static str)>,
    digests: Vec<(u64, u64)>,
    kinds: Counters,
  }
  let acc = Mutex::new(Acc { violations: BTreeMap::new(), digests: Vec::new(), kinds: Counters::default() });
  let ev_m = Mutex::new(&mut ev);
  let want_digests = digests_path.is_some();
  let stop = AtomicBool::new(false);
  let cfg = simcore::runner::RunnerConfig {
    runs,
    threads: simcore::runner::harness_threads(),
    stack_bytes: RUN_STACK,
    deadline: seconds.map(std::time::Duration::from_secs),
  };
  let executed = simcore::runner::run_many(
    &cfg,
    &|i| {
      let rs = rng::run_seed(seed, i);
      let use_corpus = corpus_every > 0 && i % corpus_every == corpus_every - 1 && !corpus.is_empty();
      let sc = workload::generate(rs, mode, if use_corpus { Some(&corpus) } else { None });
      let r = execute(&sc, mode, None);
      (sc, r)
    },
    &mut |i, (sc, r): (Scenario, RunResult)| {
      let mut a = acc.lock().unwrap();
      let mut ev = ev_m.lock().unwrap();
      ev.evaluations += 1;
      ev.steps += r.steps;
      ev.faults_fired.merge(&sc.faults);
      ev.faults_fired.merge(&r.faults);
      ev.probes.merge(&r.probes);
      a.kinds.inc(&sc.kind);
      if r.nontrivial {
        for d in &r.distinct_digests {
          ev.distinct.insert(*d);
        }
      }
      if want_digests {
        a.digests.push((i, r.digest));
      }
      if i < 3 {
        ev.samples.push(json!({
          "run_index": i,
          "kind": sc.kind,
          "knobs": sc.knobs.to_json(),
          "initial_modules": sc.initial.iter().map(|(m, _)| gen::mod_display(m)).collect::<Vec<_>>(),
          "ops": sc.ops.iter().map(|o| o.summary()).collect::<Vec<_>>(),
          "first_document": sc.initial.first().map(|(_, t)| t.clone()),
          "held": r.violations.is_empty(),
        }));
      }
      for v in r.violations {
        if a.violations.len() < 48 && !a.violations.contains_key(&v.signature) {
          a.violations.insert(v.signature.clone(), (i, v, sc.clone(), "l1"));
        }
      }
    },
    &stop,
  );
  // L2: the same kind of scenarios through cli/main.rs + tower-lsp over simulated pipes
  let l2_default: u64 = match (mode, thorough) {
    (Mode::C16, false) => 3_000,
    (Mode::C16, true) => 400_000,
    (Mode::C10, false) => 3_000,
    (_, false) => 6_000,
    (_, true) => 400_000,
  };
  let l2_runs: u64 = arg_value(&args, "--l2-runs").and_then(|s| s.parse().ok()).unwrap_or(l2_default);
  let mut l2_executed = 0;
  if l2_runs > 0 {
    l2::declare_counters(&mut ev_m.lock().unwrap());
    let cfg2 = simcore::runner::RunnerConfig {
      runs: l2_runs,
      threads: simcore::runner::harness_threads(),
      stack_bytes: RUN_STACK,
      deadline: if thorough { Some(std::time::Duration::from_secs(arg_value(&args, "--l2-seconds").and_then(|s| s.parse().ok()).unwrap_or(600))) } else { None },
    };
    l2_executed = simcore::runner::run_many(
      &cfg2,
      &|i| {
        let rs = rng::run_seed(seed, (1u64 << 40) + i);
        let sc = workload::generate(rs, mode, None);
        let r = l2::execute_l2(&sc, mode, &format!("{i}"), None);
        (sc, r)
      },
      &mut |i, (sc, r): (Scenario, RunResult)| {
        let mut a = acc.lock().unwrap();
        let mut ev = ev_m.lock().unwrap();
        ev.evaluations += 1;
        ev.steps += r.steps;
        ev.faults_fired.merge(&r.faults);
        ev.probes.merge(&r.probes);
        a.kinds.inc("l2_session");
        if r.nontrivial {
          for d in &r.distinct_digests {
            ev.distinct.insert(*d);
          }
        }
        if want_digests {
          a.digests.push(((1u64 << 40) + i, r.digest));
        }
        if i == 0 {
          ev.samples.push(json!({"run_index": (1u64 << 40), "kind": "l2_session", "knobs": sc.knobs.to_json(), "ops": sc.ops.iter().map(|o| o.summary()).collect::<Vec<_>>(), "held": r.violations.is_empty()}));
        }
        for v in r.violations {
          if a.violations.len() < 64 && !a.violations.contains_key(&v.signature) {
            a.violations.insert(v.signature.clone(), (i, v, sc.clone(), "l2"));
          }
        }
      },
      &stop,
    );
  }
  drop(ev_m);
  let acc = acc.into_inner().unwrap();
  if l2_runs > 0 {
    ev.extra.insert("l2_sessions".into(), json!(l2_executed));
    ev.components["real"].as_array_mut().unwrap().push(json!("L2 sessions: cli/main.rs Backend (all handlers, URI<->module mapping, publish_diagnostics), tower-lsp 0.20 codec/router/serve, tokio::sync::RwLock"));
    ev.components["simulated"].as_array_mut().unwrap().push(json!("L2 sessions: stdin/stdout -> in-memory pipes with seeded short reads/writes and stalls; tokio runtime -> two-task seeded executor; editor -> scripted JSON-RPC client; disk -> per-session scratch directory"));
    ev.components["stubbed"] = json!(["tokio's own scheduler is not exercised (the serve future is polled by the harness executor)"]);
  }
  ev.samples.sort_by_key(|s| s["run_index"].as_u64());
  ev.extra.insert("runs_by_workload".into(), acc.kinds.to_json());
  ev.extra.insert(
    "bounds".into(),
    json!({"modules_per_run": "2..8 synthetic (+7 std modules on a quarter of the runs); corpus runs: std + 2..5 of /repo/tests/*.sam", "ops_per_run": "4..24", "gc_slice": [1, 2, 3, 100, "shipped"], "gc_sweep_unit": [1, 2, 5, 17, 100, 10000, "shipped"], "workers": "1..4"}),
  );

  if let Some(p) = digests_path {
    let mut d = acc.digests.clone();
    d.sort();
    let text: String = d.iter().map(|(i, h)| format!("{i} {h:016x}\n")).collect();
    std::fs::write(p, text).expect("write digests");
  }

  let known = simcore::report::KnownFindings::load();
  let no_minimise = args.iter().any(|a| a == "--no-minimise");
  let found: Vec<(String, (u64, exec::Found, Scenario, &'static str))> = acc.violations.into_iter().collect();
  eprintln!("{} distinct violation signatures; minimising", found.len());
  let results: Mutex<Vec<Violation>> = Mutex::new(Vec::new());
  let next = std::sync::atomic::AtomicUsize::new(0);
  std::thread::scope(|scope| {
    for _ in 0..simcore::runner::harness_threads().min(found.len().max(1)) {
      scope.spawn(|| loop {
        let k = next.fetch_add(1, std::sync::atomic::Ordering::SeqCst);
        if k >= found.len() {
          break;
        }
        let (sig, (run_index, f, sc, level)) = &found[k];
        let v = if no_minimise || known.lookup(&property, sig).is_some() {
          // no need to minimise what is already listed with its own replay
          Violation {
            property: property.clone(),
            signature: sig.clone(),
            description: f.detail.clone(),
            replay: replay_json(level, &property, seed, Some(*run_index), sc, sig, &f.detail),
          }
        } else {
          let small = simcore::runner::run_one(RUN_STACK, || minimise(level, mode, sc.clone(), sig, 45));
          let r = simcore::runner::run_one(RUN_STACK, || run_level(level, &small, mode, None));
          let detail = r.violations.iter().find(|v| v.signature == *sig).map(|v| v.detail.clone()).unwrap_or(f.detail.clone());
          Violation {
            property: property.clone(),
            signature: sig.clone(),
            description: format!("run {run_index}: {detail}"),
            replay: replay_json(level, &property, seed, Some(*run_index), &small, sig, &detail),
          }
        };
        results.lock().unwrap().push(v);
      });
    }
  });
  let mut violations = results.into_inner().unwrap();
  violations.sort_by(|a, b| a.signature.cmp(&b.signature));
  let extra_args = vec!["--property".to_string(), property.clone()];
  let outcome = simcore::report::conclude(&property, seed, violations, &extra_args);
  ev.violations = outcome.unlisted;
  ev.known_findings_matched = outcome.known.clone();
  let wall = start.elapsed().as_secs_f64();
  ev.write(wall);
  println!(
    "{property} {tier}: {executed} L1 runs + {l2_executed} L2 sessions, {} steps, {} distinct non-trivial, {:.1}s, exit {}",
    ev.steps,
    ev.distinct.len(),
    wall,
    outcome.exit_code
  );
  std::process::exit(outcome.exit_code);
}
