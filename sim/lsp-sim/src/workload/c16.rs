//! C16: the closed loop server proposes → client applies → server re-analyses (DESIGN 4.4).

use crate::exec::{C16Access, Knobs, Op, Scenario};
use crate::gen::{self, mod_display, ModName};
use samlang_ast::{Location, Position};
use samlang_errors::ErrorDetail;
use samlang_heap::{Heap, ModuleReference};
use samlang_services::{completion, rewrite};
use serde_json::json;
use simcore::panics;
use simcore::report::Counters;
use simcore::rng::{self, Rng};
use simcore::Fnv;

const CLASS_NAMES: &[&str] = &["Alpha", "Beta", "Gamma", "AVeryLongProvidedClassName", "SixteenBytesClass", "Zed"];
const COMMENTS: &[&str] = &[
  "// note",
  "// a rather long trailing comment here",
  "/* block comment */",
  "/** doc comment that is long */",
  // comments that span lines (positions after them depend on every line break being counted)
  "/*\n * a boxed banner\n *\n * with an empty starred line\n */",
  "/**\n * Documentation over several lines.\n *\n * Second paragraph.\n */",
  "/* two\n   lines */",
  "/****************\n * banner *\n ****************/",
  "/**/",
];

fn provider_text(classes: &[String], private_one: bool) -> String {
  let mut s = String::new();
  for (i, c) in classes.iter().enumerate() {
    let p = if private_one && i == 0 { "private " } else { "" };
    s.push_str(&format!("{p}class {c} {{\n  function make(): int = {}\n}}\n\n", i + 1));
  }
  s
}

/// A scenario built around import layouts: providers export classes, a user module uses one of
/// them without importing it, a history of other edits happens, then the client asks for fixes.
pub fn generate_layout(run_seed: u64, mut w: Rng, _f: Rng) -> Scenario {
  let mut s = rng::stream(run_seed, rng::STREAM_SCHEDULE);
  let mut h = rng::stream(run_seed, rng::STREAM_HASH);
  let knobs = Knobs {
    hash_seed: h.next_u64() | 1,
    sched_seed: s.next_u64(),
    policy: "seeded".into(),
    workers: if s.chance(9, 10) { 1 } else { 2 },
    gc_slice: *s.pick(&[1usize, 3, 100, 0]),
    gc_sweep: *s.pick(&[1usize, 5, 100, 10_000, 0]),
    with_std: false,
  };
  let mut faults = Counters::default();
  // providers
  let n_providers = w.range(2, 5);
  let mut providers: Vec<(ModName, Vec<String>)> = Vec::new();
  for i in 0..n_providers {
    let name: ModName = match w.below(5) {
      // a provider that cannot be named in an import statement: nothing may be offered from it
      0 | 1 if i > 0 && w.chance(1, 3) => match w.below(3) {
        0 => vec![format!("snake_case_provider_{i}")],
        1 => vec![format!("My Provider {i}")],
        _ => vec!["val".into(), format!("Provider{i}")],
      },
      0 => vec![format!("P{i}")],
      1 => vec!["lib".into(), format!("Provider{i}")],
      2 => vec!["DirectoryWithAVeryLongName".into(), format!("Provider{i}")],
      // module paths so long that the printed import line exceeds the printer's width of 100
      3 => vec![
        "AnExtremelyLongTopLevelDirectoryNameForProvidersOfClasses".into(),
        format!("AProviderModuleWhoseOwnNameIsAlsoRemarkablyLongNumber{i}"),
      ],
      _ => vec![
        "AnExtremelyLongTopLevelDirectoryNameForProviders".into(),
        "AnotherVeryLongSubDirectoryNameInsideTheFirstOne".into(),
        format!("Provider{i}WithAVeryLongModuleName"),
      ],
    };
    let k = w.range(1, 3);
    let mut cs: Vec<String> = Vec::new();
    while cs.len() < k {
      let c = format!("{}{}", w.pick(CLASS_NAMES), if w.chance(1, 2) { i.to_string() } else { String::new() });
      if !cs.contains(&c) {
        cs.push(c);
      }
    }
    providers.push((name, cs));
  }
  // the wanted class: exported by provider 0; maybe by a second provider too
  let wanted = providers[0].1[0].clone();
  if w.chance(1, 4) && providers.len() > 1 {
    let k = w.range(1, providers.len() - 1);
    if !providers[k].1.contains(&wanted) {
      providers[k].1.push(wanted.clone());
    }
  }
  // user module import layout
  let user: ModName = if w.chance(1, 2) { vec!["User".into()] } else { vec!["app".into(), "UserModuleWithLongName".into()] };
  let n_imports = w.weighted(&[3, 3, 2, 2]);
  let mut head = String::new();
  if w.chance(1, 4) {
    head.push_str(&format!("{}\n", w.pick(COMMENTS)));
  }
  let mut used_classes: Vec<String> = Vec::new();
  let mut on_line = 0;
  for k in 0..n_imports {
    // import other classes (never the wanted one) from any provider; sometimes from provider 0
    let p = if w.chance(1, 3) { 0 } else { w.below(providers.len()) };
    let others: Vec<String> = providers[p].1.iter().filter(|c| **c != wanted && !used_classes.contains(c)).cloned().collect();
    if others.is_empty() {
      continue;
    }
    let mut names = vec![w.pick(&others).clone()];
    if others.len() > 1 && w.chance(1, 3) {
      let second = w.pick(&others).clone();
      if !names.contains(&second) {
        names.push(second);
      }
    }
    used_classes.extend(names.clone());
    let last = k + 1 == n_imports;
    let semi = if w.chance(if last { 2 } else { 5 }, 6) { ";" } else { "" };
    let braces = if w.chance(1, 4) { format!("{{{}}}", names.join(",")) } else { format!("{{ {} }}", names.join(", ")) };
    head.push_str(&format!("import {braces} from {}{semi}", providers[p].0.join(".")));
    if w.chance(1, 5) {
      head.push_str(&format!(" {}", w.pick(COMMENTS)));
      head.push('\n');
      on_line = 0;
    } else if w.chance(1, 6) && !semi.is_empty() && on_line < 2 {
      head.push(' ');
      on_line += 1;
    } else {
      head.push('\n');
      on_line = 0;
    }
    if w.chance(1, 5) {
      head.push('\n');
    }
    if w.chance(1, 6) {
      head.push_str(&format!("{}\n", w.pick(COMMENTS)));
    }
  }
  if !head.is_empty() && !head.ends_with('\n') {
    if w.chance(1, 2) {
      head.push('\n');
    } else {
      head.push(' ');
    }
  }
  let uses: Vec<String> = used_classes.iter().map(|c| format!("    let _ = {c}.make();\n")).collect();
  let body = format!(
    "{}class UserClass {{\n  function run(): int = {{\n{}    {wanted}.make()\n  }}\n}}\n",
    if w.chance(1, 5) { "/** the user class */\n" } else { "" },
    uses.join("")
  );
  let user_text = format!("{head}{body}");

  let mut initial: Vec<(ModName, String)> = Vec::new();
  let mut ops: Vec<Op> = Vec::new();
  let private_wanted = w.chance(1, 12);
  let mut late: Vec<(ModName, String)> = Vec::new();
  for (i, (m, cs)) in providers.iter().enumerate() {
    let t = provider_text(cs, private_wanted && i == 0);
    if w.chance(3, 4) {
      initial.push((m.clone(), t));
    } else {
      late.push((m.clone(), t));
    }
  }
  if w.chance(1, 2) {
    initial.push((user.clone(), user_text.clone()));
  } else {
    late.push((user.clone(), user_text.clone()));
  }
  w.shuffle(&mut late);
  for l in late {
    ops.push(Op::Update(vec![l]));
  }
  // history: unrelated edits, provider renames / removals (stale signatures), user re-edits
  for _ in 0..w.below(5) {
    match w.below(6) {
      0 if providers.len() > 1 => {
        let k = w.range(1, providers.len() - 1);
        let src = providers[k].0.clone();
        let dst = vec![format!("Moved{k}")];
        providers[k].0 = dst.clone();
        faults.inc("rename_onto_existing");
        faults.0.remove("rename_onto_existing");
        ops.push(Op::Rename(vec![(src, dst)]));
      }
      1 if providers.len() > 1 => {
        let k = w.range(1, providers.len() - 1);
        ops.push(Op::Remove(vec![providers[k].0.clone()]));
      }
      2 => {
        let k = w.below(providers.len());
        let (m, cs) = providers[k].clone();
        ops.push(Op::Update(vec![(m, provider_text(&cs, false))]));
      }
      3 => ops.push(Op::Update(vec![(user.clone(), user_text.clone())])),
      4 => ops.push(Op::Update(vec![(vec!["Unrelated".into()], "class Unrelated { function f(): int = 1 }\n".into())])),
      _ => {
        let starts: Vec<(u32, u32, bool)> = gen::token_starts(&user_text);
        if !starts.is_empty() {
          let (l, c, _) = *w.pick(&starts);
          ops.push(Op::Query { kind: "hover".into(), module: user.clone(), line: l, col: c, arg: String::new() });
        }
      }
    }
  }
  // the closed loop
  if w.chance(2, 3) {
    ops.push(Op::ApplyActions { module: user.clone(), pick: w.below(3) });
  } else {
    // completion at the use of the wanted class
    let needle = format!("    {wanted}.make()");
    let line = user_text.split('\n').position(|l| l == needle).unwrap_or(0) as u32;
    ops.push(Op::ApplyCompletion { module: user.clone(), line, col: 4, pick: w.below(4) });
  }
  if w.chance(1, 3) {
    ops.push(Op::ApplyActions { module: user.clone(), pick: 0 });
  }
  Scenario { kind: "layout".into(), knobs, initial, ops, faults }
}

// ------------------------------------------------------------------------------------------------
// oracle

fn layout_class(text: &str) -> String {
  let lines: Vec<&str> = text.split('\n').collect();
  let import_lines: Vec<&&str> = lines.iter().filter(|l| l.trim_start().starts_with("import")).collect();
  let n = text.matches("import ").count();
  let count = match n {
    0 => "none",
    1 => "one",
    _ => "many",
  };
  let (semi, trailing) = match import_lines.last() {
    None => ("-", "-"),
    Some(l) => {
      let code = match l.find("//").or_else(|| l.find("/*")) {
        Some(i) => &l[..i],
        None => l,
      };
      (if code.trim_end().ends_with(';') { "yes" } else { "no" }, if code.len() != l.len() { "yes" } else { "no" })
    }
  };
  format!("imports={count},last_semicolon={semi},trailing_comment={trailing}")
}

/// The part of a signature that names the input class a violation belongs to: specific enough
/// that the two recorded findings (F8, F12) do not hide anything else.
fn cause_tag(old_text: &str, class: &str) -> String {
  let layout = layout_class(old_text);
  if class == "missing" {
    "class_name_is_parser_placeholder".to_string()
  } else if !class.chars().next().map(|c| c.is_ascii_uppercase()).unwrap_or(false) {
    "invalid_class_name".to_string()
  } else if layout.contains("last_semicolon=no") {
    "last_import_without_semicolon".to_string()
  } else {
    layout
  }
}

fn offset_of(lines: &[&str], p: Position) -> Option<usize> {
  let l = p.0 as usize;
  if l >= lines.len() {
    return None;
  }
  let c = p.1 as usize;
  if c > lines[l].len() {
    return None;
  }
  Some(lines[..l].iter().map(|x| x.len() + 1).sum::<usize>() + c)
}

fn apply_edits(text: &str, edits: &[(Location, String)]) -> Result<String, String> {
  let lines: Vec<&str> = text.split('\n').collect();
  let mut spans: Vec<(usize, usize, &str)> = Vec::new();
  for (loc, new_text) in edits {
    if loc.start > loc.end {
      return Err(format!("range {} has start after end", loc.pretty_print_without_file()));
    }
    let (Some(s), Some(e)) = (offset_of(&lines, loc.start), offset_of(&lines, loc.end)) else {
      return Err(format!("range {} lies outside the document ({} lines)", loc.pretty_print_without_file(), lines.len()));
    };
    spans.push((s, e, new_text.as_str()));
  }
  spans.sort_by_key(|x| (x.0, x.1));
  for w in spans.windows(2) {
    if w[1].0 < w[0].1 {
      return Err("edit ranges overlap".to_string());
    }
  }
  let mut out = text.to_string();
  for (s, e, t) in spans.iter().rev() {
    out.replace_range(*s..*e, t);
  }
  Ok(out)
}

struct Parsed {
  syntax_errors: usize,
  imports: Vec<(String, Vec<String>)>,
  printed: Option<String>,
}

fn parse(text: &str, extra_import: Option<(&str, &str)>) -> Parsed {
  let mut heap = Heap::new();
  let mut errors = samlang_errors::ErrorSet::new();
  let mr = heap.alloc_module_reference_from_string_vec(vec!["Scratch".to_string()]);
  let mut module = samlang_parser::parse_source_module_from_text(text, mr, &mut heap, &mut errors);
  let syntax_errors = errors.errors().iter().filter(|e| e.is_syntax_error()).count();
  if let Some((class, module_name)) = extra_import {
    let imported_module =
      heap.alloc_module_reference_from_string_vec(module_name.split('.').map(|s| s.to_string()).collect());
    let name = heap.alloc_string(class.to_string());
    let loc = Location::dummy();
    module.imports.push(samlang_ast::source::ModuleMembersImport {
      loc,
      associated_comments: samlang_ast::source::NO_COMMENT_REFERENCE,
      imported_members: vec![samlang_ast::source::Id { loc, associated_comments: samlang_ast::source::NO_COMMENT_REFERENCE, name }],
      imported_module,
      imported_module_loc: loc,
    });
  }
  let imports = module
    .imports
    .iter()
    .map(|i| {
      (
        i.imported_module.pretty_print(&heap),
        i.imported_members.iter().map(|m| m.name.as_str(&heap).to_string()).collect::<Vec<_>>(),
      )
    })
    .collect();
  let printed = if syntax_errors == 0 { Some(samlang_printer::pretty_print_source_module(&heap, 100, &module)) } else { None };
  Parsed { syntax_errors, imports, printed }
}

/// clauses (i), (ii), (iii), (v); returns the new text when the edits could be applied
/// Outcome of the document-level clauses (i), (ii), (iii), (v) for one proposed set of edits.
pub struct EditCheck {
  /// the edited document when the edits could be applied
  pub new_text: Option<String>,
  /// (clause, detail) of every failed clause
  pub failures: Vec<(String, String)>,
  /// clauses (iii)-(vi) do not apply because the document already had syntax errors
  pub old_had_syntax_errors: bool,
}

/// Pure part of the C16 oracle (shared by L1 and L2).
pub fn check_edits(old_text: &str, class: &str, from_module: Option<&str>, edits: &[(Location, String)]) -> EditCheck {
  let mut out = EditCheck { new_text: None, failures: Vec::new(), old_had_syntax_errors: false };
  if edits.is_empty() {
    out.failures.push(("no_edits".into(), "the action carries no edits".into()));
    return out;
  }
  // (i)
  let new_text = match apply_edits(old_text, edits) {
    Ok(t) => t,
    Err(e) => {
      out.failures.push(("i_ranges".into(), e));
      return out;
    }
  };
  out.new_text = Some(new_text.clone());
  let old = parse(old_text, None);
  if old.syntax_errors > 0 {
    out.old_had_syntax_errors = true;
    return out;
  }
  // (ii)
  let new = parse(&new_text, None);
  if new.syntax_errors > 0 {
    out.failures.push(("ii_new_syntax_error".into(), format!("the edited document has {} syntax errors, the original had none", new.syntax_errors)));
    return out;
  }
  // (iii)
  let imported = new.imports.iter().any(|(m, names)| from_module.map(|f| f == m).unwrap_or(true) && names.iter().any(|n| n == class));
  if !imported {
    out.failures.push(("iii_import_absent".into(), format!("the edited document does not import `{class}` from {:?}; imports = {:?}", from_module, new.imports)));
    return out;
  }
  // (v)
  if let Some(f) = from_module {
    let expected = parse(old_text, Some((class, f)));
    if expected.printed != new.printed {
      out.failures.push(("v_program_changed".into(), "the edited document is not the original program plus the import".into()));
    }
  }
  out
}

/// Does `provider_text` declare a toplevel **class** of that name? The property speaks about "an
/// unresolved class that some other module exports"; when the exporter declares an *interface* of
/// that name, importing it cannot resolve a use that needs a class, and clause (iv) does not apply.
pub fn declares_class(provider_text: &str, class: &str) -> bool {
  let mut heap = Heap::new();
  let mut errors = samlang_errors::ErrorSet::new();
  let mr = heap.alloc_module_reference_from_string_vec(vec!["Scratch".to_string()]);
  let module = samlang_parser::parse_source_module_from_text(provider_text, mr, &mut heap, &mut errors);
  module.toplevels.iter().any(|t| t.is_class() && t.name().name.as_str(&heap) == class)
}

pub fn signature_tag(old_text: &str, class: &str) -> String {
  cause_tag(old_text, class)
}

pub fn title_parts(title: &str) -> Option<(String, String)> {
  parse_title(title)
}

fn check_action(
  acc: &mut C16Access,
  i: usize,
  source: &str,
  module: &ModName,
  old_text: &str,
  class: &str,
  from_module: Option<&str>,
  edits: &[(Location, String)],
) -> Option<String> {
  acc.probe("actions_checked");
  let layout = cause_tag(old_text, class);
  let r = check_edits(old_text, class, from_module, edits);
  if r.old_had_syntax_errors {
    acc.probe("clauses_iii_v_skipped_old_text_had_syntax_errors");
  }
  for (clause, detail) in &r.failures {
    acc.violation(
      i,
      format!("{source}|{clause}|{layout}"),
      format!("{source} for `{class}` in {}: {detail}; edits = {:?}", mod_display(module), edits.iter().map(|(l, t)| (l.pretty_print_without_file(), t.clone())).collect::<Vec<_>>()),
    );
  }
  r.new_text
}

fn parse_title(title: &str) -> Option<(String, String)> {
  // "Import `X` from `M.N`"
  let mut parts = title.split('`');
  parts.next()?;
  let class = parts.next()?.to_string();
  parts.next()?;
  let module = parts.next()?.to_string();
  Some((class, module))
}

fn unresolved(acc: &C16Access, mr: &ModuleReference) -> Vec<(Location, String)> {
  let st = acc.state();
  st.get_errors(mr)
    .iter()
    .filter_map(|e| match &e.detail {
      ErrorDetail::CannotResolveClass { module_reference, name } if module_reference == mr => {
        Some((e.location, name.as_str(&st.heap).to_string()))
      }
      _ => None,
    })
    .collect()
}

/// positions of the names that make a class "already available" in a document: import members and
/// toplevel names
fn class_binding_sites(text: &str) -> Vec<(Position, Position)> {
  let mut heap = Heap::new();
  let mut errors = samlang_errors::ErrorSet::new();
  let mr = heap.alloc_module_reference_from_string_vec(vec!["Scratch".to_string()]);
  let module = samlang_parser::parse_source_module_from_text(text, mr, &mut heap, &mut errors);
  let mut v = Vec::new();
  for i in &module.imports {
    for m in &i.imported_members {
      v.push((m.loc.start, m.loc.end));
    }
  }
  for t in &module.toplevels {
    let n = t.name();
    v.push((n.loc.start, n.loc.end));
  }
  v
}

/// errors that say the import of `class` does not do what it says: the import does not resolve
/// (missing export / missing module), or the class was already available in the document (bound by
/// another import or declared at toplevel) and the new import collides with that binding.
/// Collisions with other names of the user's program (locals, pattern bindings) are not counted.
fn import_related_errors(acc: &C16Access, mr: &ModuleReference, class: &str, text: &str) -> Vec<(String, String)> {
  let st = acc.state();
  let sites = class_binding_sites(text);
  st.get_errors(mr)
    .iter()
    .filter_map(|e| {
      let kind = match &e.detail {
        ErrorDetail::NameAlreadyBound { name, old_loc } => {
          let here = (e.location.start, e.location.end);
          let there = (old_loc.start, old_loc.end);
          if name.as_str(&st.heap) == class && sites.contains(&here) && sites.contains(&there) {
            "NameAlreadyBound"
          } else {
            return None;
          }
        }
        ErrorDetail::MissingExport { name, .. } if name.as_str(&st.heap) == class => "MissingExport",
        ErrorDetail::CannotResolveModule { .. } => "CannotResolveModule",
        _ => return None,
      };
      Some((kind.to_string(), e.to_ide_format(&st.heap, &st.string_sources).ide_error))
    })
    .collect()
}

fn note_layout(acc: &mut C16Access, old_text: &str) {
  let l = layout_class(old_text);
  if l.contains("imports=none") {
    acc.probe("document_without_imports");
  }
  if l.contains("last_semicolon=no") {
    acc.probe("last_import_without_semicolon");
  }
  if l.contains("trailing_comment=yes") {
    acc.probe("comment_after_last_import");
  }
}

fn commit(acc: &mut C16Access, i: usize, source: &str, module: &ModName, old_text: &str, class: &str, new_text: String, n_edits: usize, provider_is_class: bool) {
  let layout = layout_class(old_text);
  let tag = cause_tag(old_text, class);
  let old_had_syntax_errors = parse(old_text, None).syntax_errors > 0;
  let import_errors_before = acc.resolve(module).map(|mr| import_related_errors(acc, &mr, class, old_text)).unwrap_or_default();
  // the collision part of clause (vi) only speaks about a class that was available *and working*
  // before the edit; a class the module reported as unresolved (the quick-fix case, e.g. a broken
  // import of the same name) is outside it
  let was_unresolved_before = acc.resolve(module).map(|mr| unresolved(acc, &mr).iter().any(|(_, n)| n == class)).unwrap_or(false);
  let new_text_copy = new_text.clone();
  if !acc.send_update(i, module, new_text) {
    return;
  }
  acc.probe("actions_applied");
  let mut f = Fnv::new();
  f.str(&layout);
  f.str(source);
  f.u64(n_edits as u64);
  f.u64((acc.history_len() / 4).min(4));
  acc.distinct(f.finish());
  // (iv) — like (iii) and (v), not asked when the document was already unparsable
  if old_had_syntax_errors {
    return;
  }
  // (vi) the import itself must work: no new collision / missing-export / missing-module error
  if let Some(mr) = acc.resolve(module) {
    for (kind, text) in import_related_errors(acc, &mr, class, &new_text_copy) {
      if kind == "NameAlreadyBound" && was_unresolved_before {
        continue;
      }
      if !import_errors_before.iter().any(|(k, t)| *k == kind && *t == text) {
        acc.violation(
          i,
          format!("{source}|vi_new_import_error_{kind}|{tag}"),
          format!("after applying the {source} for `{class}` to {} the module reports a new error: {text}", mod_display(module)),
        );
      }
    }
  }
  if !provider_is_class {
    acc.probe("clause_iv_skipped_exporter_declares_an_interface");
    return;
  }
  if let Some(mr) = acc.resolve(module) {
    if unresolved(acc, &mr).iter().any(|(_, n)| n == class) {
      acc.violation(
        i,
        format!("{source}|iv_still_unresolved|{tag}"),
        format!("after applying the {source} for `{class}` to {} the class is still reported unresolved", mod_display(module)),
      );
    }
  }
}

pub fn apply_actions(acc: &mut C16Access, i: usize, module: &ModName, pick: usize) {
  let Some(mr) = acc.resolve(module) else { return };
  let Some(old_text) = acc.text_of(module) else { return };
  if !old_text.is_ascii() {
    return;
  }
  let targets = unresolved(acc, &mr);
  let mut candidates: Vec<(String, String, usize, bool)> = Vec::new(); // (class, new text, n edits, exporter declares a class)
  for (loc, class) in targets.into_iter().take(3) {
    let actions = match panics::catch(|| rewrite::code_actions(acc.state(), loc)) {
      Ok(a) => a,
      Err(pr) => {
        acc.panic(i, "code_actions", pr);
        continue;
      }
    };
    if actions.len() > 1 {
      acc.probe("class_exported_by_two_modules");
    }
    for a in actions {
      let rewrite::CodeAction::Quickfix { title, edits } = a;
      acc.probe("actions_proposed");
      note_layout(acc, &old_text);
      let Some((tclass, tmodule)) = parse_title(&title) else {
        acc.violation(i, format!("code_action|title_unparsable|{}", layout_class(&old_text)), format!("title {title:?}"));
        continue;
      };
      acc.log(i, json!({"action": title, "edits": edits.iter().map(|(l, t)| json!([l.pretty_print_without_file(), t])).collect::<Vec<_>>()}));
      acc.digest_str(&title);
      if let Some(t) = check_action(acc, i, "code_action", module, &old_text, &tclass, Some(&tmodule), &edits) {
        // only commit actions whose import target still exists in the world; importing from a
        // module that is gone cannot resolve the class, and whether such an action should be
        // offered at all is clause (iv)'s question, asked when it is the one committed
        let provider_is_class = acc.world().iter().find(|(m, _)| mod_display(m) == tmodule).map(|(_, t)| declares_class(t, &tclass)).unwrap_or(false);
        candidates.push((class.clone(), t, edits.len(), provider_is_class));
      }
    }
  }
  if !candidates.is_empty() {
    let (class, text, n, provider_is_class) = candidates[pick % candidates.len()].clone();
    commit(acc, i, "code_action", module, &old_text, &class, text, n, provider_is_class);
  }
}

pub fn apply_completion(acc: &mut C16Access, i: usize, module: &ModName, line: u32, col: u32, pick: usize) {
  let Some(mr) = acc.resolve(module) else { return };
  let Some(old_text) = acc.text_of(module) else { return };
  if !old_text.is_ascii() {
    return;
  }
  let items = match panics::catch(|| completion::auto_complete(acc.state(), &mr, Position(line, col))) {
    Ok(v) => v,
    Err(pr) => {
      acc.panic(i, "auto_complete", pr);
      return;
    }
  };
  let mut candidates: Vec<(String, String, usize, bool)> = Vec::new();
  for item in items.into_iter().filter(|x| !x.additional_edits.is_empty()).take(6) {
    acc.probe("completion_items_with_edits");
    note_layout(acc, &old_text);
    acc.digest_str(&item.label);
    // the import target is named only inside the edit text; take it from there for clause (v)
    let from: Option<String> = item.additional_edits.iter().find_map(|(_, t)| {
      let idx = t.find(" from ")?;
      let rest = &t[idx + 6..];
      Some(rest.chars().take_while(|c| c.is_ascii_alphanumeric() || *c == '.' || *c == '_' || *c == '-').collect::<String>())
    });
    if let Some(t) = check_action(acc, i, "completion", module, &old_text, &item.label, from.as_deref(), &item.additional_edits) {
      let provider_is_class = from
        .as_deref()
        .and_then(|f| acc.world().iter().find(|(m, _)| mod_display(m) == f).map(|(_, t)| declares_class(t, &item.label)))
        .unwrap_or(false);
      candidates.push((item.label.clone(), t, item.additional_edits.len(), provider_is_class));
    }
  }
  if !candidates.is_empty() {
    let (class, text, n, provider_is_class) = candidates[pick % candidates.len()].clone();
    // (iv) is only meaningful when the class was in use; after the import it must not be unresolved
    commit(acc, i, "completion", module, &old_text, &class, text, n, provider_is_class);
  }
}
