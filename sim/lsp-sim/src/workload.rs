//! Workload and fault generation for lsp-sim: one seed → one explicit scenario.

use crate::exec::{Knobs, Mode, Op, Scenario};
use crate::gen::{self, Gen, ModName};
use simcore::report::Counters;
use simcore::rng::{self, Rng};
use std::collections::BTreeMap;

pub struct Corpus {
  pub files: Vec<(ModName, String)>,
}

impl Corpus {
  pub fn load() -> Corpus {
    let dir = std::env::var("VERIF_REPO").unwrap_or_else(|_| "/repo".into());
    let mut files = Vec::new();
    if let Ok(rd) = std::fs::read_dir(format!("{dir}/tests")) {
      let mut paths: Vec<_> = rd.flatten().map(|e| e.path()).filter(|p| p.extension().map(|e| e == "sam").unwrap_or(false)).collect();
      paths.sort();
      for p in paths {
        if let (Some(stem), Ok(text)) = (p.file_stem().and_then(|s| s.to_str()), std::fs::read_to_string(&p)) {
          // the aggregate entry point imports everything; leave it out, runs pick a few modules
          if stem != "AllTests" && text.len() < 40_000 && text.is_ascii() {
            files.push((vec!["tests".to_string(), stem.to_string()], text));
          }
        }
      }
    }
    Corpus { files }
  }
  pub fn is_empty(&self) -> bool {
    self.files.len() < 3
  }
}

const FAULT_KINDS: &[&str] = &[
  "torn_document",
  "garbled_document",
  "ill_typed_edit",
  "duplicate_delivery",
  "same_module_twice_in_batch",
  "edit_then_undo",
  "dependency_broken_then_healed",
  "garbled_many",
  "placeholder_names",
  "unchanged_documents_in_batch",
  "emptied_document",
  "standard_library_module_edited",
  "file_gone_right_after_request",
];

struct FaultPlan {
  enabled: Vec<&'static str>,
  rng: Rng,
  fired: Counters,
}

impl FaultPlan {
  fn new(mut rng: Rng) -> FaultPlan {
    let enabled = FAULT_KINDS.iter().copied().filter(|_| rng.chance(1, 2)).collect();
    FaultPlan { enabled, rng, fired: Counters::default() }
  }
  fn on(&mut self, kind: &'static str, num: usize, den: usize) -> bool {
    self.enabled.contains(&kind) && self.rng.chance(num, den)
  }
  fn text_faults(&mut self, text: String) -> String {
    if self.on("emptied_document", 1, 25) {
      // select all, delete: the document is empty or nothing but white space
      self.fired.inc("emptied_document");
      self.rng.pick(&["", "", "\n", "  ", "\n\n", "\t\n"]).to_string()
    } else if self.on("torn_document", 1, 10) {
      self.fired.inc("torn_document");
      gen::torn(&mut self.rng, &text)
    } else if self.on("garbled_document", 1, 10) {
      self.fired.inc("garbled_document");
      gen::garbled(&mut self.rng, &text)
    } else if self.on("garbled_many", 1, 12) {
      self.fired.inc("garbled_many");
      gen::garbled_many(&mut self.rng, &text)
    } else if self.on("placeholder_names", 1, 8) {
      self.fired.inc("placeholder_names");
      gen::placeholders(&mut self.rng, &text)
    } else if self.on("ill_typed_edit", 1, 8) {
      self.fired.inc("ill_typed_edit");
      gen::ill_typed(&mut self.rng, &text)
    } else {
      text
    }
  }
}

fn knobs(run_seed: u64, force_std: bool, w: &mut Rng) -> Knobs {
  let mut s = rng::stream(run_seed, rng::STREAM_SCHEDULE);
  let mut h = rng::stream(run_seed, rng::STREAM_HASH);
  let workers = if s.chance(17, 20) { 1 } else { s.range(2, 4) };
  Knobs {
    hash_seed: h.next_u64() | 1,
    sched_seed: s.next_u64(),
    policy: "seeded".into(),
    workers,
    gc_slice: *s.pick(&[1usize, 2, 3, 100, 0]),
    gc_sweep: *s.pick(&[1usize, 2, 5, 17, 100, 10_000, 0]),
    with_std: force_std || w.chance(1, 4),
  }
}

const QUERY_KINDS: &[&str] =
  &["hover", "signature_help", "definition", "references", "folding", "complete", "code_actions", "format", "rename"];

fn gen_query(w: &mut Rng, belief: &BTreeMap<ModName, String>, removed: &[ModName], universe: &[ModName]) -> Op {
  let kind = rng_pick_str(w, QUERY_KINDS);
  let existing: Vec<&ModName> = belief.keys().collect();
  let module: ModName = match w.below(20) {
    0 => match w.below(6) {
      0 => vec!["<outside>".into()],
      1 => vec!["<untitled>".into()],
      2 => vec!["<rootdir>".into()],
      3 => vec!["<short>".into()],
      _ => vec!["Nope".into(), "NeverExisted".into()],
    },
    1 | 2 if !removed.is_empty() => w.pick(removed).clone(),
    3 | 4 if !universe.is_empty() => w.pick(universe).clone(),
    _ if !existing.is_empty() => (*w.pick(&existing)).clone(),
    _ => vec!["Nope".into()],
  };
  let text = belief.get(&module).cloned().unwrap_or_default();
  let starts = gen::token_starts(&text);
  let n_lines = text.split('\n').count() as u32;
  let (line, col) = match w.below(20) {
    0 => (u32::MAX, u32::MAX),
    1 => (n_lines + w.below(3) as u32, w.below(10) as u32),
    2 => (w.below(n_lines.max(1) as usize) as u32, 200 + w.below(100) as u32),
    3 => (0, 0),
    4 | 5 => (w.below(n_lines.max(1) as usize + 2) as u32, w.below(80) as u32),
    _ if !starts.is_empty() => {
      let (l, c, _) = *w.pick(&starts);
      // sometimes inside the token rather than at its start
      (l, c + if w.chance(1, 4) { 1 } else { 0 })
    }
    _ => (0, 0),
  };
  let arg = if kind == "rename" {
    w.pick(&["renamedVariable", "x", "aVeryLongReplacementNameForRename", "Upper", "", "has space", "1abc", " padded "]).to_string()
  } else {
    String::new()
  };
  Op::Query { kind, module, line, col, arg }
}

fn rng_pick_str(w: &mut Rng, xs: &[&str]) -> String {
  w.pick(xs).to_string()
}

pub fn generate(run_seed: u64, mode: Mode, corpus: Option<&Corpus>) -> Scenario {
  let mut w = rng::stream(run_seed, rng::STREAM_WORKLOAD);
  let f = rng::stream(run_seed, rng::STREAM_FAULTS);
  if let Some(c) = corpus {
    return generate_corpus(run_seed, mode, c, w, f);
  }
  if mode == Mode::C16 && w.chance(3, 5) {
    return c16::generate_layout(run_seed, w, f);
  }
  if mode != Mode::C16 && w.chance(1, 250) {
    return generate_many_modules(run_seed, mode, w, f);
  }
  generate_synthetic(run_seed, mode, w, f)
}

/// >100 tiny modules: crosses NUM_MODULE_MARKED_PER_SLICE (100) with the shipped constant, so the
/// mark phase of one GC round spans several edits and the sweep gate stays closed in between.
fn generate_many_modules(run_seed: u64, mode: Mode, mut w: Rng, f: Rng) -> Scenario {
  let mut faults = FaultPlan::new(f);
  let mut knobs = knobs(run_seed, false, &mut w);
  knobs.with_std = false;
  knobs.gc_slice = *w.pick(&[0usize, 0, 100, 3]);
  let n = w.range(101, 140);
  let long = |i: usize| format!("aRatherLongFunctionNameNumber{i}");
  let text = |i: usize, v: usize, n: usize| -> String {
    let dep = (i + 1) % n;
    format!("import {{ C{dep} }} from many.M{dep};\n\nclass C{i} {{\n  function {}(x: int): int = if x < {v} {{ x }} else {{ C{dep}.{}(x - 1) }}\n}}\n", long(i), long(dep))
  };
  let names: Vec<ModName> = (0..n).map(|i| vec!["many".to_string(), format!("M{i}")]).collect();
  let mut initial = Vec::new();
  let mut belief: BTreeMap<ModName, String> = BTreeMap::new();
  for i in 0..n {
    if i % 17 != 3 {
      let t = text(i, 0, n);
      initial.push((names[i].clone(), t.clone()));
      belief.insert(names[i].clone(), t);
    }
  }
  let mut ops = Vec::new();
  for step in 0..w.range(3, 8) {
    match w.below(8) {
      0 => {
        let i = w.below(n);
        belief.remove(&names[i]);
        ops.push(Op::Remove(vec![names[i].clone()]));
      }
      1 => {
        let i = w.below(n);
        if let Some(t) = belief.remove(&names[i]) {
          let dst = vec!["many".to_string(), format!("Renamed{step}")];
          belief.insert(dst.clone(), t);
          ops.push(Op::Rename(vec![(names[i].clone(), dst)]));
        }
      }
      _ => {
        let i = w.below(n);
        let mut t = text(i, step + 1, n);
        if w.chance(1, 3) {
          t = t.replace(&long((i + 1) % n), "someFunctionThatDoesNotExistAnywhere");
        }
        let t = faults.text_faults(t);
        belief.insert(names[i].clone(), t.clone());
        ops.push(Op::Update(vec![(names[i].clone(), t)]));
      }
    }
    if mode == Mode::C11 {
      ops.push(gen_query(&mut w, &belief, &[], &names));
    }
  }
  faults.fired.inc("more_than_100_modules");
  Scenario { kind: "many_modules".into(), knobs, initial, ops, faults: faults.fired }
}

fn import_cycle_of_length_3_or_more(world: &BTreeMap<ModName, String>) -> bool {
  // edges from `import { .. } from a.b` lines
  let mut edges: BTreeMap<&ModName, Vec<ModName>> = BTreeMap::new();
  for (m, t) in world {
    for line in t.lines() {
      let l = line.trim();
      if let (true, Some(f)) = (l.starts_with("import"), l.find(" from ")) {
        let target: ModName = l[f + 6..].trim().trim_end_matches(';').split('.').map(|s| s.trim().to_string()).collect();
        if world.contains_key(&target) && &target != m {
          edges.entry(m).or_default().push(target);
        }
      }
    }
  }
  // a cycle of length >= 3: DFS of depth-limited simple paths returning to the start
  for start in world.keys() {
    let mut stack: Vec<(ModName, Vec<ModName>)> = vec![(start.clone(), vec![start.clone()])];
    let mut budget = 2000;
    while let Some((cur, path)) = stack.pop() {
      budget -= 1;
      if budget == 0 {
        break;
      }
      for nxt in edges.get(&cur).cloned().unwrap_or_default() {
        if &nxt == start && path.len() >= 3 {
          return true;
        }
        if !path.contains(&nxt) && path.len() < 6 {
          let mut p = path.clone();
          p.push(nxt.clone());
          stack.push((nxt, p));
        }
      }
    }
  }
  false
}

fn generate_synthetic(run_seed: u64, mode: Mode, mut w: Rng, f: Rng) -> Scenario {
  let mut faults = FaultPlan::new(f);
  let knobs = knobs(run_seed, false, &mut w);
  let mut g = Gen::new(&mut w);
  let mut belief: BTreeMap<ModName, String> = BTreeMap::new();
  let mut removed: Vec<ModName> = Vec::new();
  let mut initial = Vec::new();
  let universe = g.modules.clone();
  for m in &universe {
    if w.chance(2, 3) {
      let t = g.gen_module(&mut w, m, false);
      initial.push((m.clone(), t.clone()));
      belief.insert(m.clone(), t);
    }
  }
  // second pass over a few so that earlier modules import later ones (cycles)
  for _ in 0..w.below(3) {
    if let Some(m) = initial.iter().map(|(m, _)| m.clone()).nth(w.below(initial.len().max(1))) {
      let t = g.gen_module(&mut w, &m, true);
      for e in initial.iter_mut() {
        if e.0 == m {
          e.1 = t.clone();
        }
      }
      belief.insert(m, t);
    }
  }
  // initial documents can be faulty too (a server started on a broken tree)
  for e in initial.iter_mut() {
    if w.chance(1, 12) {
      e.1 = faults.text_faults(e.1.clone());
      belief.insert(e.0.clone(), e.1.clone());
    }
  }

  let n_ops = w.range(4, 24);
  // per-run weights (swarm): update, rename, remove, break/heal, query, c16
  let mut weights = match mode {
    Mode::C10 => [40usize, 8, 8, 5, 0, 0],
    Mode::C11 => [30, 6, 6, 4, 45, 0],
    Mode::C16 => [30, 5, 5, 3, 0, 30],
  };
  for x in weights.iter_mut().take(4).skip(1) {
    if w.chance(1, 4) {
      *x = 0;
    } else if w.chance(1, 4) {
      *x *= 3;
    }
  }
  let mut ops: Vec<Op> = Vec::new();
  let mut pending_heal: Vec<(usize, Op)> = Vec::new();
  let mut fresh_names = 0;
  while ops.len() < n_ops {
    if let Some(p) = pending_heal.iter().position(|(at, _)| *at <= ops.len()) {
      let (_, op) = pending_heal.remove(p);
      if let Op::Update(ms) = &op {
        for (m, t) in ms {
          belief.insert(m.clone(), t.clone());
          removed.retain(|x| x != m);
        }
      }
      faults.fired.inc("dependency_broken_then_healed");
      ops.push(op);
      continue;
    }
    if knobs.with_std && faults.on("standard_library_module_edited", 1, 12) {
      // the tuple classes of the standard library are a module of the project like any other
      // (every tuple expression depends on it without importing it): edit it, and undo the edit
      // (the text the parser crate embeds; read here at compile time as well, because building a
      // heap in the generator would create hash maps before the run's hash seed is installed)
      let original = include_str!("/repo/std/tuples.sam").to_string();
      let edited = match w.below(3) {
        0 => original.replace("method first()", "method firstRenamedInTheLibrary()"),
        1 => original.replace("val e1: E1", "val renamedSecondElement: E1").replace("this.e1", "this.renamedSecondElement"),
        _ => original.clone(),
      };
      faults.fired.inc("standard_library_module_edited");
      ops.push(Op::Update(vec![(vec!["std".to_string(), "tuples".to_string()], edited)]));
      continue;
    }
    match w.weighted(&weights) {
      0 => {
        let k = w.weighted(&[6, 3, 1]) + 1;
        let old = belief.clone();
        let mut batch: Vec<(ModName, String)> = Vec::new();
        for _ in 0..k {
          let m = w.pick(&g.modules).clone();
          let keep = w.chance(3, 5);
          let text = g.gen_module(&mut w, &m, keep);
          let text = faults.text_faults(text);
          batch.push((m, text));
        }
        if faults.on("same_module_twice_in_batch", 1, 15) {
          let m = batch[0].0.clone();
          let t2 = g.gen_module(&mut w, &m, true);
          batch.push((m, t2));
          faults.fired.inc("same_module_twice_in_batch");
        }
        if faults.on("unchanged_documents_in_batch", 1, 6) {
          // "save all": documents whose text did not change travel in the same batch as the ones
          // that did — before or after them
          let others: Vec<(ModName, String)> =
            old.iter().filter(|(m, _)| !batch.iter().any(|(b, _)| b == *m)).map(|(m, t)| (m.clone(), t.clone())).collect();
          if !others.is_empty() {
            // preferably the modules that import what changed: they sit between the change and
            // everything further downstream
            let imports_of = |text: &str, m: &ModName| {
              let name = m.join(".");
              text.lines().any(|l| l.starts_with("import ") && (l.ends_with(&format!("from {name}")) || l.ends_with(&format!("from {name};"))))
            };
            let direct: Vec<(ModName, String)> =
              others.iter().filter(|(_, t)| batch.iter().any(|(b, _)| imports_of(t, b))).cloned().collect();
            for _ in 0..w.range(1, 3) {
              let o = if !direct.is_empty() && w.chance(2, 3) { w.pick(&direct).clone() } else { w.pick(&others).clone() };
              if !batch.iter().any(|(b, _)| *b == o.0) {
                let at = w.below(batch.len() + 1);
                batch.insert(at, o);
              }
            }
            faults.fired.inc("unchanged_documents_in_batch");
            // reach probe: an unchanged batch member B that imports a changed batch member A and is
            // itself imported by a module C outside the batch that does not import A
            let imports = |text: &str, m: &ModName| {
              let name = m.join(".");
              text.lines().any(|l| l.starts_with("import ") && (l.ends_with(&format!("from {name}")) || l.ends_with(&format!("from {name};"))))
            };
            let shielded = batch.iter().any(|(b, bt)| {
              old.get(b) == Some(bt)
                && batch.iter().any(|(a, at)| a != b && old.get(a) != Some(at) && imports(bt, a) && {
                  old.iter().any(|(c, ct)| !batch.iter().any(|(x, _)| x == c) && imports(ct, b) && !imports(ct, a))
                })
            });
            if shielded {
              faults.fired.inc("unchanged_batch_member_between_changed_module_and_outside_importer");
            }
          }
        }
        for (m, t) in &batch {
          belief.insert(m.clone(), t.clone());
          removed.retain(|x| x != m);
        }
        ops.push(Op::Update(batch.clone()));
        if faults.on("duplicate_delivery", 1, 12) {
          ops.push(Op::Update(batch.clone()));
          faults.fired.inc("duplicate_delivery");
        }
        if faults.on("edit_then_undo", 1, 10) {
          let undo: Vec<(ModName, String)> =
            batch.iter().filter_map(|(m, _)| old.get(m).map(|t| (m.clone(), t.clone()))).collect();
          if !undo.is_empty() {
            for (m, t) in &undo {
              belief.insert(m.clone(), t.clone());
            }
            ops.push(Op::Update(undo));
            faults.fired.inc("edit_then_undo");
          }
        }
      }
      1 => {
        let n_pairs = if w.chance(1, 4) { 2 } else { 1 };
        let mut pairs = Vec::new();
        let mut chain_from: Option<ModName> = None;
        for _ in 0..n_pairs {
          let existing: Vec<ModName> = belief.keys().cloned().collect();
          let src: ModName = if let Some(c) = chain_from.take() {
            faults.fired.inc("rename_chain");
            c
          } else if existing.is_empty() || w.chance(1, 10) {
            faults.fired.inc("rename_absent_source");
            vec!["Absent".into(), "Source".into()]
          } else {
            w.pick(&existing).clone()
          };
          let dst: ModName = match w.below(8) {
            0 if !existing.is_empty() => {
              let d = w.pick(&existing).clone();
              if d == src {
                faults.fired.inc("rename_to_self");
              } else {
                faults.fired.inc("rename_onto_existing");
              }
              d
            }
            1 => {
              faults.fired.inc("rename_to_self");
              src.clone()
            }
            2 | 3 | 4 if universe.iter().any(|m| !belief.contains_key(m)) => {
              // onto a name of the universe that does not exist right now (never created, removed
              // or renamed away) and that other modules may already import: heals their imports
              let absent: Vec<ModName> = universe.iter().filter(|m| !belief.contains_key(*m)).cloned().collect();
              faults.fired.inc("rename_onto_absent_but_imported_name");
              w.pick(&absent).clone()
            }
            _ => {
              fresh_names += 1;
              if w.chance(1, 2) { vec![format!("Renamed{fresh_names}")] } else { vec!["RenamedDirectoryWithLongName".into(), format!("Module{fresh_names}")] }
            }
          };
          if w.chance(1, 3) {
            chain_from = Some(dst.clone());
          }
          // belief
          if let Some(t) = belief.remove(&src) {
            if src != dst {
              removed.push(src.clone());
            }
            belief.insert(dst.clone(), t);
            if let Some(s) = g.specs.remove(&src) {
              g.specs.insert(dst.clone(), s);
            }
            if !g.modules.contains(&dst) {
              g.modules.push(dst.clone());
            }
          }
          pairs.push((src, dst));
        }
        ops.push(Op::Rename(pairs));
      }
      2 => {
        let existing: Vec<ModName> = belief.keys().cloned().collect();
        let mut ms = Vec::new();
        for _ in 0..(w.weighted(&[5, 2]) + 1) {
          if existing.is_empty() || w.chance(1, 8) {
            faults.fired.inc("remove_absent");
            ms.push(if removed.is_empty() || w.chance(1, 2) { vec!["Absent".into(), "Module".into()] } else { w.pick(&removed).clone() });
          } else {
            ms.push(w.pick(&existing).clone());
          }
        }
        for m in &ms {
          if belief.remove(m).is_some() {
            removed.push(m.clone());
          }
        }
        ops.push(Op::Remove(ms.clone()));
        if w.chance(1, 10) {
          faults.fired.inc("remove_twice");
          ops.push(Op::Remove(ms));
        }
      }
      3 => {
        let existing: Vec<ModName> = belief.keys().cloned().collect();
        if faults.enabled.contains(&"dependency_broken_then_healed") && !existing.is_empty() {
          let m = w.pick(&existing).clone();
          let t = belief.remove(&m).unwrap();
          removed.push(m.clone());
          ops.push(Op::Remove(vec![m.clone()]));
          pending_heal.push((ops.len() + w.range(1, 3), Op::Update(vec![(m, t)])));
        }
      }
      4 => {
        for _ in 0..w.range(1, 4) {
          ops.push(gen_query(&mut w, &belief, &removed, &universe));
        }
        if faults.on("file_gone_right_after_request", 1, 6) {
          // the file a request is about disappears (deleted or moved) while the request may still
          // be in flight: preceded by an edit of another file (whose diagnostics are still being
          // published), followed by nothing that would let the server drain
          if let Some(Op::Query { module, kind, line, col, arg }) = ops.last().cloned() {
            if belief.contains_key(&module) {
              // mostly a request that has something to do: a rename of a `let`-bound name
              if w.chance(2, 3) {
                let text = belief[&module].clone();
                let lets: Vec<(u32, u32)> = text
                  .split('\n')
                  .enumerate()
                  .filter_map(|(l, line)| line.find("let ").map(|c| (l as u32, (c + 4) as u32)))
                  .filter(|(l, c)| {
                    text.split('\n').nth(*l as usize).and_then(|x| x.as_bytes().get(*c as usize)).map(|b| b.is_ascii_lowercase()).unwrap_or(false)
                  })
                  .collect();
                if !lets.is_empty() {
                  let (l, c) = *w.pick(&lets);
                  ops.pop();
                  ops.push(Op::Query { kind: "rename".into(), module: module.clone(), line: l, col: c, arg: "renamedBeforeTheFileWentAway".into() });
                }
              }
              let others: Vec<ModName> = belief.keys().filter(|m| **m != module).cloned().collect();
              if !others.is_empty() {
                let o = w.pick(&others).clone();
                let t = g.gen_module(&mut w, &o, true);
                belief.insert(o.clone(), t.clone());
                let q = ops.pop().unwrap();
                ops.push(Op::Update(vec![(o, t)]));
                ops.push(q);
                let _ = (kind, line, col, arg);
              }
              if w.chance(1, 2) {
                belief.remove(&module);
                removed.push(module.clone());
                ops.push(Op::Remove(vec![module]));
              } else {
                fresh_names += 1;
                let to: ModName = vec![format!("MovedWhileRequested{fresh_names}")];
                if let Some(t) = belief.remove(&module) {
                  belief.insert(to.clone(), t);
                }
                removed.push(module.clone());
                ops.push(Op::Rename(vec![(module, to)]));
              }
              faults.fired.inc("file_gone_right_after_request");
            }
          }
        }
      }
      _ => {
        let existing: Vec<ModName> = belief.keys().cloned().collect();
        if !existing.is_empty() {
          let m = w.pick(&existing).clone();
          if w.chance(2, 3) {
            ops.push(Op::ApplyActions { module: m, pick: w.below(4) });
          } else {
            let text = belief.get(&m).cloned().unwrap_or_default();
            let uppers: Vec<(u32, u32, bool)> = gen::token_starts(&text).into_iter().filter(|t| t.2).collect();
            if !uppers.is_empty() {
              let (l, c, _) = *w.pick(&uppers);
              ops.push(Op::ApplyCompletion { module: m, line: l, col: c, pick: w.below(6) });
            }
          }
        }
      }
    }
  }
  if import_cycle_of_length_3_or_more(&belief) {
    faults.fired.inc("import_cycle_of_length_3_or_more");
  }
  Scenario { kind: "synthetic".into(), knobs, initial, ops, faults: faults.fired }
}

fn replace_word(text: &str, from: &str, to: &str) -> String {
  let b = text.as_bytes();
  let mut out = String::with_capacity(text.len());
  let mut i = 0;
  while i < b.len() {
    if text[i..].starts_with(from) {
      let before_ok = i == 0 || !(b[i - 1].is_ascii_alphanumeric() || b[i - 1] == b'_');
      let j = i + from.len();
      let after_ok = j >= b.len() || !(b[j].is_ascii_alphanumeric() || b[j] == b'_');
      if before_ok && after_ok {
        out.push_str(to);
        i = j;
        continue;
      }
    }
    out.push(b[i] as char);
    i += 1;
  }
  out
}

fn generate_corpus(run_seed: u64, mode: Mode, corpus: &Corpus, mut w: Rng, f: Rng) -> Scenario {
  let mut faults = FaultPlan::new(f);
  let knobs = knobs(run_seed, true, &mut w);
  let mut chosen: Vec<(ModName, String)> = Vec::new();
  if let Some(stdlib) = corpus.files.iter().find(|(m, _)| m[1] == "StdLib") {
    chosen.push(stdlib.clone());
  }
  let k = w.range(2, 5);
  let small: Vec<&(ModName, String)> = corpus.files.iter().filter(|(_, t)| t.len() < 12_000).collect();
  for _ in 0..k {
    let c = (*w.pick(&small)).clone();
    if !chosen.iter().any(|(m, _)| *m == c.0) {
      chosen.push(c);
    }
  }
  // consistent identifier lengthening: class names across all chosen files
  if w.chance(2, 3) {
    for _ in 0..w.range(1, 3) {
      let (_, t) = w.pick(&chosen).clone();
      let idents: Vec<String> = gen::token_starts(&t)
        .iter()
        .filter(|x| x.2)
        .map(|(l, c, _)| {
          let line = t.split('\n').nth(*l as usize).unwrap_or("");
          line[*c as usize..].chars().take_while(|ch| ch.is_ascii_alphanumeric()).collect::<String>()
        })
        .filter(|s| s.len() > 3 && !matches!(s.as_str(), "Process" | "Vec" | "Pair" | "Triple" | "List" | "Option" | "Result" | "Comparable" | "Boxed"))
        .collect();
      if !idents.is_empty() {
        let from = w.pick(&idents).clone();
        let to = format!("{from}LengthenedBeyondSixteenBytes");
        for e in chosen.iter_mut() {
          e.1 = replace_word(&e.1, &from, &to);
        }
      }
    }
  }
  let mut belief: BTreeMap<ModName, String> = BTreeMap::new();
  let mut initial = Vec::new();
  for (m, t) in &chosen {
    if w.chance(4, 5) {
      initial.push((m.clone(), t.clone()));
      belief.insert(m.clone(), t.clone());
    }
  }
  let originals: BTreeMap<ModName, String> = chosen.iter().cloned().collect();
  let names: Vec<ModName> = chosen.iter().map(|(m, _)| m.clone()).collect();
  let mut removed: Vec<ModName> = Vec::new();
  let mut ops = Vec::new();
  let n_ops = w.range(3, 10);
  let mut fresh = 0;
  while ops.len() < n_ops {
    let roll = w.below(if mode == Mode::C11 { 16 } else { 10 });
    match roll {
      0..=5 => {
        let m = w.pick(&names).clone();
        let base = if w.chance(1, 2) { originals[&m].clone() } else { belief.get(&m).cloned().unwrap_or_else(|| originals[&m].clone()) };
        // local identifier lengthening inside this file only
        let mut text = base;
        if w.chance(1, 3) {
          let lows: Vec<String> = gen::token_starts(&text)
            .iter()
            .filter(|x| !x.2)
            .map(|(l, c, _)| {
              let line = text.split('\n').nth(*l as usize).unwrap_or("");
              line[*c as usize..].chars().take_while(|ch| ch.is_ascii_alphanumeric()).collect::<String>()
            })
            .filter(|s| s.len() > 1 && s.as_bytes()[0].is_ascii_lowercase() && !matches!(s.as_str(), "class" | "function" | "method" | "val" | "let" | "if" | "else" | "match" | "import" | "from" | "private" | "as" | "this" | "true" | "false" | "int" | "bool" | "unit" | "interface" | "init"))
            .collect();
          if !lows.is_empty() {
            let from = w.pick(&lows).clone();
            text = replace_word(&text, &from, &format!("{from}WithAVeryLongSuffixAdded"));
          }
        }
        let text = faults.text_faults(text);
        belief.insert(m.clone(), text.clone());
        removed.retain(|x| *x != m);
        ops.push(Op::Update(vec![(m, text)]));
      }
      6 => {
        let existing: Vec<ModName> = belief.keys().cloned().collect();
        if !existing.is_empty() {
          let src = w.pick(&existing).clone();
          fresh += 1;
          let dst = vec!["tests".to_string(), format!("RenamedCorpusModule{fresh}")];
          let t = belief.remove(&src).unwrap();
          belief.insert(dst.clone(), t);
          removed.push(src.clone());
          ops.push(Op::Rename(vec![(src, dst)]));
        }
      }
      7 => {
        let existing: Vec<ModName> = belief.keys().cloned().collect();
        if !existing.is_empty() {
          let m = w.pick(&existing).clone();
          belief.remove(&m);
          removed.push(m.clone());
          ops.push(Op::Remove(vec![m]));
        }
      }
      8 | 9 if mode == Mode::C16 => {
        let existing: Vec<ModName> = belief.keys().cloned().collect();
        if !existing.is_empty() {
          ops.push(Op::ApplyActions { module: w.pick(&existing).clone(), pick: w.below(3) });
        }
      }
      _ => {
        for _ in 0..w.range(1, 5) {
          ops.push(gen_query(&mut w, &belief, &removed, &names));
        }
      }
    }
  }
  Scenario { kind: "corpus".into(), knobs, initial, ops, faults: faults.fired }
}

pub mod c16;
