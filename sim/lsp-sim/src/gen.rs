//! Synthetic samlang project generator for lsp-sim (DESIGN 4.2/4.3).
//!
//! Produces small modules — classes (struct / enum / utility), interfaces, functions and methods
//! with bodies that call into other modules — from an identifier pool that mixes <=15-byte and
//! >=16-byte names and is shared across modules and versions, so that the same long string is
//! allocated, dropped, reclaimed and re-allocated over a history. Long names are put in *every*
//! position an identifier can occur: class, type parameter, field, variant, member, parameter,
//! local, pattern binding, lambda parameter, import, string literal, line/block/doc comment.
//!
//! The generator tracks signatures so that most modules type-check when their dependencies are in
//! the state it believes; the oracle never relies on that (the fresh server is the truth).

use simcore::rng::Rng;
use std::collections::BTreeMap;

pub type ModName = Vec<String>;

pub fn mod_display(m: &ModName) -> String {
  m.join(".")
}

const UPPER_SHORT: &[&str] = &["A", "B", "C", "Foo", "Bar", "Node", "Item", "Main"];
const UPPER_LONG: &[&str] = &[
  "VeryLongClassNameNumberOne",
  "AnotherQuiteLongClassName",
  "YetAnotherLongClassNameX",
  "ClassWithSixteenB",
  "SixteenBytesName",
  "LongInterfaceNameForTests",
  "ExtremelyVerboseTypeIdentifier",
];
const LOWER_SHORT: &[&str] = &["a", "b", "x", "y", "foo", "bar", "value", "run", "get", "n"];
const LOWER_LONG: &[&str] = &[
  "aVeryLongVariableNameOne",
  "someRatherLongFunctionName",
  "anotherLongIdentifierHere",
  "sixteenBytesName",
  "longFieldNameNumberOne",
  "longParameterNameX1",
  "yetAnotherLongLocalVariable",
  "lambdaParameterWithLongName",
  "patternBindingWithLongName",
];
const TPARAM_LONG: &[&str] = &["TypeParamLongNameOne", "ElementTypeParameter"];
const COMMENT_TEXT: &[&str] = &[
  "short",
  "a comment that is longer than sixteen bytes",
  "documentation that explains nothing at all",
  "TODO: revisit this later maybe",
];
const STRING_LITS: &[&str] =
  &["", "hi", "hello world, this is long", "sixteen bytes ok", "another long string literal value"];
const MODULE_PARTS_LONG: &[&str] = &["LongModuleNamePartNumberOne", "AnotherLongDirectoryName"];

#[derive(Clone, Debug, PartialEq)]
pub enum Ty {
  Int,
  Bool,
  Str,
  Unit,
  /// a non-generic class, or a generic one instantiated with int (`Name<int>`)
  Class(String, bool),
  /// a generic struct class instantiated with another type (`Name<Arg>`)
  ClassArg(String, Box<Ty>),
  /// a one-argument function type `(A) -> R`
  Fn(Box<Ty>, Box<Ty>),
  /// a type name that no module declares (an unresolved, usually long, class name in a type
  /// position: the only root of its string is the stored diagnostic and the annotation itself)
  Unresolved(String),
}

impl Ty {
  pub fn render(&self) -> String {
    match self {
      Ty::Int => "int".into(),
      Ty::Bool => "bool".into(),
      Ty::Str => "Str".into(),
      Ty::Unit => "unit".into(),
      Ty::Class(n, false) => n.clone(),
      Ty::Class(n, true) => format!("{n}<int>"),
      Ty::ClassArg(n, a) => format!("{n}<{}>", a.render()),
      Ty::Fn(a, r) => format!("({}) -> {}", a.render(), r.render()),
      Ty::Unresolved(n) => n.clone(),
    }
  }
}

#[derive(Clone, Debug)]
pub struct FnSig {
  pub name: String,
  pub is_method: bool,
  pub is_private: bool,
  pub params: Vec<(String, Ty)>,
  pub ret: Ty,
}

#[derive(Clone, Debug)]
pub enum ClassKind {
  Struct(Vec<(String, Ty)>),
  Enum(Vec<(String, Vec<Ty>)>),
  Util,
  Interface,
}

#[derive(Clone, Debug)]
pub struct ClassSig {
  pub name: String,
  pub kind: ClassKind,
  /// one optional type parameter (used only as the type of a field `value` / variant payload)
  pub tparam: Option<String>,
  pub fns: Vec<FnSig>,
  pub implements: Option<String>,
  pub is_private: bool,
}

#[derive(Clone, Debug, Default)]
pub struct ModuleSpec {
  pub imports: Vec<(ModName, Vec<String>)>,
  pub classes: Vec<ClassSig>,
}

pub struct Gen {
  pub long_bias: usize, // percent
  pub comment_rate: usize,
  pub modules: Vec<ModName>,
  /// latest generated version of every module (what the generator believes the world is)
  pub specs: BTreeMap<ModName, ModuleSpec>,
  fresh_counter: usize,
}

fn pick_from<'a>(rng: &mut Rng, short: &'a [&'a str], long: &'a [&'a str], long_bias: usize) -> &'a str {
  if rng.below(100) < long_bias { *rng.pick(long) } else { *rng.pick(short) }
}

struct Scope {
  locals: Vec<(String, Ty)>,
  this_class: Option<ClassSig>,
  in_method: bool,
}

impl Gen {
  pub fn new(rng: &mut Rng) -> Gen {
    let n = rng.range(2, 8);
    let mut modules: Vec<ModName> = Vec::new();
    while modules.len() < n {
      let i = modules.len();
      let name: ModName = match rng.below(4) {
        // file names an editor has to percent-encode in the document URI
        // ... or that are no identifiers of the language (such a module cannot be imported)
        0 if rng.chance(1, 6) => match rng.below(7) {
          0 => vec!["from".into(), format!("Mod{i}")],
          1 => vec![format!("snake_case_module_{i}")],
          _ => vec![format!("{}{i}", rng.pick(&["My Mod", "Caf\u{e9}", "Hash#Tag", "What?"]))],
        },
        0 => vec![format!("M{i}")],
        1 => vec!["pkg".into(), format!("Mod{i}")],
        2 => vec![rng.pick(MODULE_PARTS_LONG).to_string(), format!("Part{i}")],
        _ => vec![format!("ModuleWithLongName{i}")],
      };
      modules.push(name);
    }
    Gen {
      long_bias: *rng.pick(&[10usize, 30, 50, 70, 90]),
      comment_rate: *rng.pick(&[0usize, 10, 30]),
      modules,
      specs: BTreeMap::new(),
      fresh_counter: 0,
    }
  }

  fn upper(&self, rng: &mut Rng) -> String {
    pick_from(rng, UPPER_SHORT, UPPER_LONG, self.long_bias).to_string()
  }

  fn lower(&self, rng: &mut Rng) -> String {
    pick_from(rng, LOWER_SHORT, LOWER_LONG, self.long_bias).to_string()
  }

  fn fresh_lower(&mut self, rng: &mut Rng, taken: &[String]) -> String {
    for _ in 0..6 {
      let n = self.lower(rng);
      if !taken.contains(&n) {
        return n;
      }
    }
    self.fresh_counter += 1;
    if rng.below(100) < self.long_bias {
      format!("generatedLongLocalName{}", self.fresh_counter)
    } else {
      format!("v{}", self.fresh_counter)
    }
  }

  fn comment(&self, rng: &mut Rng, out: &mut String, indent: &str, doc_ok: bool) {
    if rng.below(100) < self.comment_rate {
      let unique = format!("a comment that occurs only here {}", rng.below(1_000_000));
      let text: &str = if rng.chance(1, 2) { *rng.pick(COMMENT_TEXT) } else { &unique };
      if rng.chance(1, 12) {
        // degenerate and multi-line comment forms: what an editor's auto-close leaves behind
        // (`/**/`), boxed banners, lines that end in a star, an empty line comment
        let form = *rng.pick(&[
          "/**/",
          "/***/",
          "/* */",
          "/** */",
          "//",
          "/*\n * a boxed banner\n *\n * with an empty starred line\n */",
          "/**\n * documentation over several lines\n *\n * and a second paragraph\n */",
          "/* two\n   lines */",
          "/****************\n * banner *\n ****************/",
        ]);
        if doc_ok || !form.starts_with("/**") || form == "/**/" {
          out.push_str(&format!("{indent}{form}\n"));
          return;
        }
      }
      match rng.below(if doc_ok { 3 } else { 2 }) {
        0 => out.push_str(&format!("{indent}// {text}\n")),
        1 => out.push_str(&format!("{indent}/* {text} */\n")),
        _ => out.push_str(&format!("{indent}/** {text} */\n")),
      }
    }
  }

  fn simple_ty(&self, rng: &mut Rng, classes: &[(String, bool)]) -> Ty {
    match rng.below(28) {
      26 => {
        // function type; its argument / result may themselves be unresolved long names
        let unresolved = |rng: &mut Rng| Ty::Unresolved(format!("UnresolvedInsideAFunctionType{}", rng.below(1000)));
        let a = if rng.chance(1, 4) { unresolved(rng) } else { self.base_ty(rng, classes) };
        let r = if rng.chance(1, 4) { unresolved(rng) } else { self.base_ty(rng, classes) };
        return Ty::Fn(Box::new(a), Box::new(r));
      }
      27 | 23 => {
        return Ty::Unresolved(if rng.chance(1, 2) {
          rng.pick(&["UnresolvedButVeryLongTypeNameOne", "AnotherUnresolvedLongTypeName", "Unresolved"]).to_string()
        } else {
          format!("UnresolvedAndUniqueTypeName{}", rng.below(100_000))
        });
      }
      24 | 25 => {
        // generic struct applied to another class
        let generics: Vec<&(String, bool)> = classes.iter().filter(|c| c.1).collect();
        let plain: Vec<&(String, bool)> = classes.iter().filter(|c| !c.1).collect();
        if !generics.is_empty() && !plain.is_empty() {
          let g = rng.pick(&generics).0.clone();
          let a = rng.pick(&plain).0.clone();
          let arg = if rng.chance(1, 4) { Ty::Unresolved(format!("UnresolvedTypeArgument{}", rng.below(1000))) } else { Ty::Class(a, false) };
          return Ty::ClassArg(g, Box::new(arg));
        }
      }
      _ => {}
    }
    self.base_ty(rng, classes)
  }

  fn base_ty(&self, rng: &mut Rng, classes: &[(String, bool)]) -> Ty {
    match rng.below(10) {
      0..=3 => Ty::Int,
      4 => Ty::Bool,
      5 | 6 => Ty::Str,
      _ => {
        if classes.is_empty() {
          Ty::Int
        } else {
          let (n, g) = rng.pick(classes).clone();
          Ty::Class(n, g)
        }
      }
    }
  }

  /// classes visible in a module under construction: (name, generic, sig)
  fn visible(&self, spec: &ModuleSpec) -> Vec<ClassSig> {
    let mut v: Vec<ClassSig> = spec.classes.clone();
    for (m, names) in &spec.imports {
      if let Some(ms) = self.specs.get(m) {
        for n in names {
          if let Some(c) = ms.classes.iter().find(|c| &c.name == n && !c.is_private) {
            if !v.iter().any(|x| x.name == c.name) {
              v.push(c.clone());
            }
          }
        }
      }
    }
    v
  }

  /// Generate a new version of module `m`. `keep_shape`: keep class names and kinds of the previous
  /// version (a "small edit"), so dependents mostly stay valid.
  pub fn gen_module(&mut self, rng: &mut Rng, m: &ModName, keep_shape: bool) -> String {
    let prev = self.specs.get(m).cloned();
    let mut spec = ModuleSpec::default();

    // imports
    let others: Vec<ModName> = self.modules.iter().filter(|x| *x != m).cloned().collect();
    let n_imports = rng.weighted(&[2, 4, 3, 1]);
    for _ in 0..n_imports {
      let roll = rng.below(20);
      if roll == 0 {
        // missing module
        spec.imports.push((vec!["Missing".into(), "Module".into()], vec![self.upper(rng)]));
      } else if roll == 1 {
        // self import
        spec.imports.push((m.clone(), vec![self.upper(rng)]));
      } else if !others.is_empty() {
        let target = rng.pick(&others).clone();
        let mut names: Vec<String> = match self.specs.get(&target) {
          Some(ts) if !ts.classes.is_empty() => {
            let k = rng.range(1, ts.classes.len().min(3));
            let mut cs: Vec<String> = ts.classes.iter().map(|c| c.name.clone()).collect();
            rng.shuffle(&mut cs);
            cs.truncate(k);
            cs
          }
          _ => vec![self.upper(rng)],
        };
        if rng.chance(1, 12) {
          names.push(self.upper(rng)); // possibly not exported
        }
        if !spec.imports.iter().any(|(t, _)| *t == target) {
          spec.imports.push((target, names));
        }
      }
    }

    // class shapes
    let n_classes = match &prev {
      Some(p) if keep_shape => p.classes.len(),
      _ => rng.range(1, 3),
    };
    let mut taken: Vec<String> = spec.imports.iter().flat_map(|(_, ns)| ns.clone()).collect();
    for ci in 0..n_classes {
      let (name, kind_roll, tparam) = match &prev {
        Some(p) if keep_shape => {
          let c = &p.classes[ci];
          let roll = match c.kind {
            ClassKind::Struct(_) => 0,
            ClassKind::Enum(_) => 1,
            ClassKind::Util => 2,
            ClassKind::Interface => 3,
          };
          (c.name.clone(), roll, c.tparam.clone())
        }
        _ => {
          let mut name = self.upper(rng);
          let mut tries = 0;
          while taken.contains(&name) && tries < 8 {
            name = self.upper(rng);
            tries += 1;
          }
          if taken.contains(&name) {
            self.fresh_counter += 1;
            name = format!("GeneratedClassWithLongName{}", self.fresh_counter);
          }
          let tparam = if rng.chance(1, 6) {
            Some(if rng.below(100) < self.long_bias { rng.pick(TPARAM_LONG).to_string() } else { "T".to_string() })
          } else {
            None
          };
          (name, rng.weighted(&[4, 3, 3, 1]), tparam)
        }
      };
      taken.push(name.clone());
      let visible_for_types: Vec<(String, bool)> = self
        .visible(&spec)
        .iter()
        .filter(|c| !matches!(c.kind, ClassKind::Interface))
        .map(|c| (c.name.clone(), c.tparam.is_some()))
        .collect();
      let kind = match kind_roll {
        0 => {
          let mut fields = Vec::new();
          let mut names = Vec::new();
          for _ in 0..rng.range(1, 3) {
            let f = self.fresh_lower(rng, &names);
            names.push(f.clone());
            fields.push((f, self.simple_ty(rng, &visible_for_types)));
          }
          ClassKind::Struct(fields)
        }
        1 => {
          let mut variants = Vec::new();
          for _ in 0..rng.range(1, 3) {
            let mut v = self.upper(rng);
            if variants.iter().any(|(n, _): &(String, Vec<Ty>)| *n == v) {
              self.fresh_counter += 1;
              v = format!("Variant{}", self.fresh_counter);
            }
            let payload = (0..rng.weighted(&[3, 4, 2])).map(|_| self.simple_ty(rng, &visible_for_types)).collect();
            variants.push((v, payload));
          }
          ClassKind::Enum(variants)
        }
        2 => ClassKind::Util,
        _ => ClassKind::Interface,
      };
      // generic classes only in the simplest form
      let (kind, tparam) = match (&kind, &tparam) {
        (ClassKind::Struct(_), Some(_)) => (ClassKind::Struct(vec![("value".to_string(), Ty::Int)]), tparam),
        (_, _) => (kind, None),
      };
      // member signatures
      let mut fns = Vec::new();
      let mut member_names: Vec<String> = Vec::new();
      let n_members = rng.range(if matches!(kind, ClassKind::Util) { 1 } else { 0 }, 3);
      for _ in 0..n_members {
        let name = self.fresh_lower(rng, &member_names);
        if name == "init" {
          continue;
        }
        member_names.push(name.clone());
        let is_method = match kind {
          ClassKind::Util => false,
          ClassKind::Interface => true,
          _ => rng.chance(1, 2),
        };
        let mut params = Vec::new();
        let mut pnames: Vec<String> = Vec::new();
        for _ in 0..rng.weighted(&[3, 4, 2, 1]) {
          let p = self.fresh_lower(rng, &pnames);
          pnames.push(p.clone());
          params.push((p, self.simple_ty(rng, &visible_for_types)));
        }
        let ret = match rng.below(8) {
          0 => Ty::Unit,
          _ => self.simple_ty(rng, &visible_for_types),
        };
        fns.push(FnSig {
          name,
          is_method,
          is_private: !matches!(kind, ClassKind::Interface) && rng.chance(1, 8),
          params,
          ret,
        });
      }
      spec.classes.push(ClassSig {
        name,
        kind,
        tparam,
        fns,
        implements: None,
        is_private: rng.chance(1, 15),
      });
    }
    // a class may implement — and an interface may extend — an interface of the same module or an
    // imported one (chains of super types across modules: checking a module can then report an
    // error located two import hops away); now and then the super type is a class, which is an
    // error reported at the use site
    let mut ifaces: Vec<ClassSig> =
      spec.classes.iter().filter(|c| matches!(c.kind, ClassKind::Interface)).cloned().collect();
    for v in self.visible(&spec) {
      let local = spec.classes.iter().any(|c| c.name == v.name);
      if !local && v.tparam.is_none() && (matches!(v.kind, ClassKind::Interface) || rng.chance(1, 10)) {
        ifaces.push(v);
      }
    }
    if !ifaces.is_empty() {
      for c in spec.classes.iter_mut() {
        if matches!(c.kind, ClassKind::Interface) {
          if rng.chance(1, 3) {
            let i = rng.pick(&ifaces).clone();
            if i.name != c.name {
              c.implements = Some(i.name.clone());
            }
          }
          continue;
        }
        if c.tparam.is_none() && rng.chance(1, 2) {
          let i = rng.pick(&ifaces).clone();
          // copy (most of) the interface's members; leaving some out yields the
          // "members must be implemented" diagnostic
          for f in &i.fns {
            if rng.chance(5, 6) && !c.fns.iter().any(|x| x.name == f.name) {
              c.fns.push(FnSig { is_private: false, ..f.clone() });
            }
          }
          c.implements = Some(i.name.clone());
        }
      }
    }

    // render
    let visible = self.visible(&spec);
    let mut out = String::new();
    self.comment(rng, &mut out, "", false);
    for (target, names) in &spec.imports {
      let semi = if rng.chance(9, 10) { ";" } else { "" };
      out.push_str(&format!("import {{ {} }} from {}{}\n", names.join(", "), target.join("."), semi));
      self.comment(rng, &mut out, "", false);
    }
    if !spec.imports.is_empty() {
      out.push('\n');
    }
    let classes = spec.classes.clone();
    for c in &classes {
      self.comment(rng, &mut out, "", true);
      let tp = c
        .tparam
        .as_ref()
        .map(|t| {
          if rng.chance(1, 4) {
            // a bound that names an interface nobody declares (unique, long)
            format!("<{t}: OnlyInATypeParameterBound{}>", rng.below(100_000))
          } else {
            format!("<{t}>")
          }
        })
        .unwrap_or_default();
      let private = if c.is_private { "private " } else { "" };
      let header = match &c.kind {
        ClassKind::Interface => format!("{private}interface {}{tp}", c.name),
        ClassKind::Util => format!("{private}class {}{tp}", c.name),
        ClassKind::Struct(fields) => {
          let fs: Vec<String> = fields
            .iter()
            .map(|(n, t)| {
              let t = if c.tparam.is_some() { c.tparam.clone().unwrap() } else { t.render() };
              format!("val {n}: {t}")
            })
            .collect();
          format!("{private}class {}{tp}({})", c.name, fs.join(", "))
        }
        ClassKind::Enum(variants) => {
          let vs: Vec<String> = variants
            .iter()
            .map(|(n, p)| {
              if p.is_empty() {
                n.clone()
              } else {
                format!("{n}({})", p.iter().map(|t| t.render()).collect::<Vec<_>>().join(", "))
              }
            })
            .collect();
          format!("{private}class {}{tp}({})", c.name, vs.join(", "))
        }
      };
      let imp = if c.tparam.is_none() && rng.chance(1, 15) {
        // a cyclic hierarchy: the class or interface names itself as its super type
        format!(" : {}", c.name)
      } else {
        c.implements.as_ref().map(|i| format!(" : {i}")).unwrap_or_default()
      };
      out.push_str(&format!("{header}{imp} {{\n"));
      for f in &c.fns {
        self.comment(rng, &mut out, "  ", true);
        let kw = if f.is_method { "method" } else { "function" };
        let private = if f.is_private { "private " } else { "" };
        let ps: Vec<String> = f.params.iter().map(|(n, t)| format!("{n}: {}", t.render())).collect();
        let sig = format!("  {private}{kw} {}({}): {}", f.name, ps.join(", "), f.ret.render());
        if matches!(c.kind, ClassKind::Interface) {
          out.push_str(&sig);
          out.push('\n');
        } else {
          let mut scope = Scope {
            locals: f.params.clone(),
            this_class: Some(c.clone()),
            in_method: f.is_method,
          };
          let body = self.gen_body(rng, &f.ret, &mut scope, &visible);
          out.push_str(&format!("{sig} = {body}\n"));
        }
        out.push('\n');
      }
      if !matches!(c.kind, ClassKind::Interface) && rng.chance(1, 8) {
        // a member with its own, uniquely named type parameter
        let n = rng.below(100_000);
        out.push_str(&format!("  function <MemberLevelTypeParameter{n}> identityNumber{n}(x: MemberLevelTypeParameter{n}): MemberLevelTypeParameter{n} = x\n\n"));
      }
      let mut bound_interface: Option<String> = None;
      if !matches!(c.kind, ClassKind::Interface) && c.tparam.is_none() && rng.chance(1, 5) {
        // a call that instantiates a bounded type parameter with the type argument of a value
        // that comes from a function of another class: the "is not a subtype of the bound" error
        // is located where that type argument is *written* — in the other class's module
        let mut cands: Vec<(String, String, FnSig)> = Vec::new(); // (generic class, provider class, provider function)
        for p in &visible {
          if matches!(p.kind, ClassKind::Interface) || p.tparam.is_some() || p.name == c.name {
            continue;
          }
          for f in p.fns.iter().filter(|f| !f.is_method && !f.is_private) {
            let g = match &f.ret {
              Ty::Class(g, true) => Some(g.clone()),
              Ty::ClassArg(g, _) => Some(g.clone()),
              _ => None,
            };
            if let Some(g) = g {
              if visible.iter().any(|x| x.name == g && x.tparam.is_some() && matches!(x.kind, ClassKind::Struct(_))) {
                cands.push((g, p.name.clone(), f.clone()));
              }
            }
          }
        }
        if !cands.is_empty() {
          let (g, p, f) = rng.pick(&cands).clone();
          let n = rng.below(100_000);
          let mut scope = Scope { locals: Vec::new(), this_class: Some(c.clone()), in_method: false };
          let args: Vec<String> = f.params.iter().map(|(_, t)| self.gen_expr(rng, t, 1, &mut scope, &visible)).collect();
          out.push_str(&format!(
            "  function <T: BoundThatNothingSatisfies{n}<T>> needsBound{n}(x: {g}<T>): unit = {{  }}\n\n  function callsBound{n}(): unit = {}.needsBound{n}({p}.{}({}))\n\n",
            c.name,
            f.name,
            args.join(", ")
          ));
          bound_interface = Some(format!("interface BoundThatNothingSatisfies{n}<T> {{}}\n\n"));
        }
      }
      if let (Some(t), ClassKind::Struct(_)) = (&c.tparam, &c.kind) {
        out.push_str(&format!("  method unwrapTheValue(): {t} = this.value\n"));
      }
      out.push_str("}\n\n");
      if let Some(i) = bound_interface {
        out.push_str(&i);
      }
    }
    if rng.chance(1, 10) {
      out.push_str(&format!("// {}\n", rng.pick(COMMENT_TEXT)));
    }
    self.specs.insert(m.clone(), spec);
    out
  }

  fn gen_body(&mut self, rng: &mut Rng, ret: &Ty, scope: &mut Scope, visible: &[ClassSig]) -> String {
    if rng.chance(1, 3) {
      return self.gen_expr(rng, ret, 2, scope, visible);
    }
    // block with statements
    let mut s = String::from("{\n");
    let n = rng.range(1, 3);
    for _ in 0..n {
      let taken: Vec<String> = scope.locals.iter().map(|(n, _)| n.clone()).collect();
      match rng.below(6) {
        0 | 1 | 2 => {
          let name = self.fresh_lower(rng, &taken);
          let ty = match rng.below(5) {
            0 => Ty::Int,
            1 => Ty::Str,
            2 => Ty::Bool,
            _ => {
              let cs: Vec<(String, bool)> = visible
                .iter()
                .filter(|c| !matches!(c.kind, ClassKind::Interface))
                .map(|c| (c.name.clone(), c.tparam.is_some()))
                .collect();
              self.simple_ty(rng, &cs)
            }
          };
          let e = self.gen_expr(rng, &ty, 2, scope, visible);
          let annot = if rng.chance(1, 3) { format!(": {}", ty.render()) } else { String::new() };
          s.push_str(&format!("    let {name}{annot} = {e};\n"));
          scope.locals.push((name, ty));
        }
        3 => {
          // struct pattern on this
          if let (true, Some(ClassSig { kind: ClassKind::Struct(fields), tparam: None, .. })) =
            (scope.in_method, scope.this_class.clone())
          {
            let (fname, fty) = rng.pick(&fields).clone();
            let local = self.fresh_lower(rng, &taken);
            if local != fname {
              let fname = if rng.chance(1, 12) { format!("{fname}MisspelledFieldName{}", rng.below(100_000)) } else { fname };
              s.push_str(&format!("    let {{ {fname} as {local} }} = this;\n"));
              scope.locals.push((local, fty));
            }
          }
        }
        4 => {
          let e = self.gen_expr(rng, &Ty::Str, 1, scope, visible);
          match rng.below(6) {
            4 => {
              // an unresolved, unique, long name that occurs only in an explicit type argument
              let n = rng.below(100_000);
              if rng.chance(1, 2) {
                s.push_str(&format!("    let _ = Process.panic<OnlyInAnExplicitTypeArgument{n}>({e});\n"));
              } else {
                s.push_str(&format!("    let _ = if false {{ Process.panic<int>({e}) }} else {{ Str.fromInt(1).toInt() }};\n"));
              }
            }
            5 => {
              // ... and one that occurs only in the annotation of a lambda parameter
              let n = rng.below(100_000);
              let p = self.fresh_lower(rng, &taken);
              s.push_str(&format!("    let _ = ({p}: OnlyInALambdaParameterAnnotation{n}) -> 1;\n"));
            }
            0 if rng.chance(1, 5) => {
              // a tuple at and beyond the size limit (16), from names only or with a literal in it
              let n = *rng.pick(&[3usize, 8, 15, 16, 17, 18, 21]);
              let name_of_int: Option<String> =
                scope.locals.iter().find(|(_, t)| *t == Ty::Int).map(|(n, _)| n.clone());
              let elem = match (&name_of_int, rng.chance(2, 3)) {
                (Some(n), true) => n.clone(),
                _ => "7".to_string(),
              };
              let mut elems = vec![elem; n];
              if rng.chance(1, 4) {
                let at = rng.below(n);
                elems[at] = "40 + 2".to_string();
              }
              if rng.chance(1, 3) {
                let names: Vec<String> = (0..n).map(|i| format!("tupleElement{i}")).collect();
                s.push_str(&format!("    let ({}) = ({});\n", names.join(", "), elems.join(", ")));
              } else {
                let t = self.fresh_lower(rng, &taken);
                s.push_str(&format!("    let {t} = ({});\n", elems.join(", ")));
              }
            }
            0 => {
              // tuple expression and tuple pattern (std.tuples may or may not be present)
              let a = self.fresh_lower(rng, &taken);
              let b = self.fresh_lower(rng, &[taken.clone(), vec![a.clone()]].concat());
              let i = self.gen_expr(rng, &Ty::Int, 1, scope, visible);
              match rng.below(4) {
                // members and fields of the tuple classes (module std.tuples, never imported)
                0 => {
                  s.push_str(&format!("    let {a} = ({i}, {e}).first();\n    let {b} = ({i}, {e}).e1;\n"));
                }
                1 => {
                  s.push_str(&format!("    let {{ e0 as {a}, e1 as {b} }} = ({i}, {e});\n"));
                }
                _ => s.push_str(&format!("    let ({a}, {b}) = ({i}, {e});\n")),
              }
              scope.locals.push((a, Ty::Int));
              scope.locals.push((b, Ty::Str));
            }
            1 => {
              // else-if chain
              let c1 = self.gen_expr(rng, &Ty::Bool, 1, scope, visible);
              let c2 = self.gen_expr(rng, &Ty::Bool, 1, scope, visible);
              let e2 = self.gen_expr(rng, &Ty::Str, 1, scope, visible);
              let e3 = self.gen_expr(rng, &Ty::Str, 1, scope, visible);
              s.push_str(&format!("    Process.println(if {c1} {{ {e} }} else if {c2} {{ {e2} }} else {{ {e3} }});\n"));
            }
            _ => s.push_str(&format!("    Process.println({e});\n")),
          }
        }
        _ if rng.chance(1, 2) => {
          // lambda whose body is a match (or if-let) over a captured value
          let name = self.fresh_lower(rng, &taken);
          let rty = if rng.chance(1, 2) { Ty::Int } else { Ty::Str };
          if let Some(m) = self.gen_match(rng, &rty, 2, scope, visible) {
            s.push_str(&format!("    let {name} = () -> {m};\n"));
            let r = self.fresh_lower(rng, &[taken, vec![name.clone()]].concat());
            s.push_str(&format!("    let {r} = {name}();\n"));
            scope.locals.push((r, rty));
          }
        }
        _ => {
          // lambda bound to a local, then applied
          let p = self.fresh_lower(rng, &taken);
          let name = self.fresh_lower(rng, &[taken.clone(), vec![p.clone()]].concat());
          // the body may capture parameters and locals of the enclosing member
          let captured = self.gen_expr(rng, &Ty::Int, 1, scope, visible);
          s.push_str(&format!("    let {name} = ({p}: int) -> {p} + {captured};\n"));
          let r = self.fresh_lower(rng, &[taken, vec![p, name.clone()]].concat());
          s.push_str(&format!("    let {r} = {name}(2);\n"));
          scope.locals.push((r, Ty::Int));
        }
      }
      if rng.below(100) < self.comment_rate {
        s.push_str(&format!("    // {}\n", rng.pick(COMMENT_TEXT)));
      }
    }
    let tail = self.gen_expr(rng, ret, 2, scope, visible);
    if *ret == Ty::Unit && rng.chance(1, 2) {
      if tail != "{  }" {
        s.push_str(&format!("    let _ = {tail};\n"));
      }
    } else {
      s.push_str(&format!("    {tail}\n"));
    }
    s.push_str("  }");
    s
  }

  fn gen_expr(&mut self, rng: &mut Rng, ty: &Ty, depth: usize, scope: &mut Scope, visible: &[ClassSig]) -> String {
    // candidates from scope
    let locals_of: Vec<String> = scope.locals.iter().filter(|(_, t)| t == ty).map(|(n, _)| n.clone()).collect();
    if !locals_of.is_empty() && rng.chance(2, 5) {
      return rng.pick(&locals_of).clone();
    }
    // apply a function-typed local or parameter
    let fn_locals: Vec<(String, Ty)> = scope
      .locals
      .iter()
      .filter_map(|(n, t)| match t {
        Ty::Fn(a, r) if **r == *ty => Some((n.clone(), (**a).clone())),
        _ => None,
      })
      .collect();
    if depth > 0 && !fn_locals.is_empty() && rng.chance(1, 2) {
      let (n, a) = rng.pick(&fn_locals).clone();
      let arg = self.gen_expr(rng, &a, depth - 1, scope, visible);
      return format!("{n}({arg})");
    }
    // field of this
    if scope.in_method {
      if let Some(ClassSig { kind: ClassKind::Struct(fields), tparam: None, .. }) = &scope.this_class {
        let fs: Vec<String> = fields.iter().filter(|(_, t)| t == ty).map(|(n, _)| n.clone()).collect();
        if !fs.is_empty() && rng.chance(1, 3) {
          return format!("this.{}", rng.pick(&fs));
        }
      }
    }
    // a call chain through a type this module never names: `Visible.f(..).m(..)` where `f` returns a
    // class of some other module (one that this module may not even import) and `m` is a method
    // of that class — a dependency on a module two import hops away with no import of it
    if depth > 0 && rng.chance(1, 3) {
      let mut cands: Vec<(ClassSig, FnSig, FnSig)> = Vec::new();
      for c in visible {
        if matches!(c.kind, ClassKind::Interface) || c.tparam.is_some() {
          continue;
        }
        let own = scope.this_class.as_ref().map(|t| t.name == c.name).unwrap_or(false);
        for f in c.fns.iter().filter(|f| !f.is_method && (!f.is_private || own)) {
          if let Ty::Class(rname, false) = &f.ret {
            let owners: Vec<&ClassSig> =
              self.specs.values().flat_map(|ms| ms.classes.iter()).filter(|r| &r.name == rname).collect();
            if let [r] = owners.as_slice() {
              if r.tparam.is_none() && !matches!(r.kind, ClassKind::Interface) {
                for m in r.fns.iter().filter(|m| m.is_method && !m.is_private && &m.ret == ty) {
                  cands.push((c.clone(), f.clone(), m.clone()));
                }
              }
            }
          }
        }
      }
      if !cands.is_empty() {
        let (c, f, m) = rng.pick(&cands).clone();
        let args: Vec<String> = f.params.iter().map(|(_, t)| self.gen_expr(rng, t, depth - 1, scope, visible)).collect();
        let margs: Vec<String> = m.params.iter().map(|(_, t)| self.gen_expr(rng, t, depth - 1, scope, visible)).collect();
        return format!("{}.{}({}).{}({})", c.name, f.name, args.join(", "), m.name, margs.join(", "));
      }
    }
    // call to a visible function / method returning ty
    if depth > 0 && rng.chance(2, 5) {
      let mut cands: Vec<(ClassSig, FnSig)> = Vec::new();
      for c in visible {
        if matches!(c.kind, ClassKind::Interface) || c.tparam.is_some() {
          continue;
        }
        let own = scope.this_class.as_ref().map(|t| t.name == c.name).unwrap_or(false);
        for f in &c.fns {
          if &f.ret == ty && (!f.is_private || own) {
            cands.push((c.clone(), f.clone()));
          }
        }
      }
      if !cands.is_empty() {
        let (c, f) = rng.pick(&cands).clone();
        let args: Vec<String> = f.params.iter().map(|(_, t)| self.gen_expr(rng, t, depth - 1, scope, visible)).collect();
        // now and then a member name that exists nowhere (its only roots: this expression and
        // the diagnostic about it)
        let fname = if rng.chance(1, 30) { format!("{}MisspelledAndUnique{}", f.name, rng.below(100_000)) } else { f.name.clone() };
        if f.is_method {
          let recv = self.gen_expr(rng, &Ty::Class(c.name.clone(), false), depth - 1, scope, visible);
          return format!("{recv}.{fname}({})", args.join(", "));
        } else {
          return format!("{}.{fname}({})", c.name, args.join(", "));
        }
      }
    }
    match ty {
      Ty::Int => match rng.below(if depth > 0 { 8 } else { 2 }) {
        0 | 1 => format!("{}", rng.below(100)),
        2 | 3 => {
          let op = *rng.pick(&["+", "-", "*"]);
          let a = self.gen_expr(rng, &Ty::Int, depth - 1, scope, visible);
          let b = self.gen_expr(rng, &Ty::Int, depth - 1, scope, visible);
          format!("{a} {op} {b}")
        }
        4 => {
          let c = self.gen_expr(rng, &Ty::Bool, depth - 1, scope, visible);
          let a = self.gen_expr(rng, &Ty::Int, depth - 1, scope, visible);
          let b = self.gen_expr(rng, &Ty::Int, depth - 1, scope, visible);
          format!("if {c} {{ {a} }} else {{ {b} }}")
        }
        5 => self.gen_match(rng, ty, depth, scope, visible).unwrap_or_else(|| "7".into()),
        6 => {
          // generic container round trip
          match visible.iter().find(|c| c.tparam.is_some() && matches!(c.kind, ClassKind::Struct(_))) {
            Some(c) => format!("{}.init({}).unwrapTheValue()", c.name, rng.below(50)),
            None => "3".into(),
          }
        }
        _ => {
          let s = self.gen_expr(rng, &Ty::Str, depth - 1, scope, visible);
          format!("{s}.toInt()")
        }
      },
      Ty::Bool => match rng.below(if depth > 0 { 6 } else { 2 }) {
        0 => "true".into(),
        1 => "false".into(),
        2 | 3 => {
          let op = *rng.pick(&["<", "<=", "==", "!=", ">"]);
          let a = self.gen_expr(rng, &Ty::Int, depth - 1, scope, visible);
          let b = self.gen_expr(rng, &Ty::Int, depth - 1, scope, visible);
          format!("{a} {op} {b}")
        }
        4 => {
          let a = self.gen_expr(rng, &Ty::Bool, depth - 1, scope, visible);
          format!("!{a}")
        }
        _ => {
          let op = *rng.pick(&["&&", "||"]);
          let a = self.gen_expr(rng, &Ty::Bool, depth - 1, scope, visible);
          let b = self.gen_expr(rng, &Ty::Bool, depth - 1, scope, visible);
          format!("{a} {op} {b}")
        }
      },
      Ty::Str => match rng.below(if depth > 0 { 5 } else { 2 }) {
        0 => format!("\"{}\"", rng.pick(STRING_LITS)),
        // a literal that occurs nowhere else in the project
        1 => format!("\"a string literal that is unique {}\"", rng.below(1_000_000)),
        2 => {
          let a = self.gen_expr(rng, &Ty::Int, depth - 1, scope, visible);
          format!("Str.fromInt({a})")
        }
        3 => {
          let a = self.gen_expr(rng, &Ty::Str, depth - 1, scope, visible);
          let b = self.gen_expr(rng, &Ty::Str, depth - 1, scope, visible);
          format!("{a} :: {b}")
        }
        _ => self.gen_match(rng, ty, depth, scope, visible).unwrap_or_else(|| "\"m\"".into()),
      },
      Ty::Unit => match rng.below(3) {
        0 => "{  }".into(),
        _ => {
          let a = self.gen_expr(rng, &Ty::Str, depth.saturating_sub(1), scope, visible);
          format!("Process.println({a})")
        }
      },
      Ty::Unresolved(n) => format!("Process.panic<{n}>(\"a value of an unresolved type\")"),
      Ty::Fn(a, r) => {
        let taken: Vec<String> = scope.locals.iter().map(|(n, _)| n.clone()).collect();
        let p = self.fresh_lower(rng, &taken);
        let saved = scope.locals.len();
        scope.locals.push((p.clone(), (**a).clone()));
        let body = self.gen_expr(rng, r, depth.saturating_sub(1), scope, visible);
        scope.locals.truncate(saved);
        if rng.chance(2, 3) { format!("({p}: {}) -> {body}", a.render()) } else { format!("({p}) -> {body}") }
      }
      Ty::ClassArg(n, a) => {
        if depth == 0 {
          return format!("Process.panic<{}>(\"depth\")", ty.render());
        }
        let arg = self.gen_expr(rng, a, depth - 1, scope, visible);
        format!("{n}.init({arg})")
      }
      Ty::Class(name, generic) => {
        let c = visible.iter().find(|c| &c.name == name);
        match c {
          None => format!("Process.panic<{}>(\"no value of this type\")", ty.render()),
          Some(c) => {
            let own = scope.this_class.as_ref().map(|t| t.name == c.name).unwrap_or(false);
            if own && scope.in_method && !generic && rng.chance(1, 2) {
              return "this".into();
            }
            if depth == 0 {
              return format!("Process.panic<{}>(\"depth\")", ty.render());
            }
            match &c.kind {
              ClassKind::Struct(fields) => {
                if *generic {
                  format!("{}.init({})", c.name, rng.below(9))
                } else {
                  let args: Vec<String> =
                    fields.iter().map(|(_, t)| self.gen_expr(rng, t, depth - 1, scope, visible)).collect();
                  format!("{}.init({})", c.name, args.join(", "))
                }
              }
              ClassKind::Enum(variants) => {
                let (v, payload) = rng.pick(variants).clone();
                let args: Vec<String> =
                  payload.iter().map(|t| self.gen_expr(rng, t, depth - 1, scope, visible)).collect();
                format!("{}.{}({})", c.name, v, args.join(", "))
              }
              _ => format!("Process.panic<{}>(\"cannot construct\")", ty.render()),
            }
          }
        }
      }
    }
  }

  fn gen_match(&mut self, rng: &mut Rng, ty: &Ty, depth: usize, scope: &mut Scope, visible: &[ClassSig]) -> Option<String> {
    if depth == 0 {
      return None;
    }
    let enums: Vec<ClassSig> =
      visible.iter().filter(|c| matches!(c.kind, ClassKind::Enum(_)) && c.tparam.is_none()).cloned().collect();
    if enums.is_empty() {
      return None;
    }
    let c = rng.pick(&enums).clone();
    let ClassKind::Enum(variants) = &c.kind else { return None };
    let scrut = self.gen_expr(rng, &Ty::Class(c.name.clone(), false), depth - 1, scope, visible);
    if rng.chance(1, 4) {
      // if-let on the first variant
      let (v, payload) = &variants[0];
      let taken: Vec<String> = scope.locals.iter().map(|(n, _)| n.clone()).collect();
      let mut binds = Vec::new();
      for _ in payload {
        binds.push(if rng.chance(1, 3) { "_".to_string() } else { self.fresh_lower(rng, &[taken.clone(), binds.clone()].concat()) });
      }
      let pat = if payload.is_empty() { v.clone() } else { format!("{v}({})", binds.join(", ")) };
      let saved = scope.locals.len();
      for (b, t) in binds.iter().zip(payload.iter()) {
        if b != "_" {
          scope.locals.push((b.clone(), t.clone()));
        }
      }
      let a = self.gen_expr(rng, ty, depth - 1, scope, visible);
      scope.locals.truncate(saved);
      let b = self.gen_expr(rng, ty, depth - 1, scope, visible);
      return Some(format!("if let {pat} = {scrut} {{ {a} }} else {{ {b} }}"));
    }
    let mut arms = Vec::new();
    let drop_last = variants.len() > 1 && rng.chance(1, 10); // non-exhaustive on purpose
    let or_patterns = rng.chance(1, 3);
    let mut skip_next = false;
    for (i, (v, payload)) in variants.iter().enumerate() {
      if drop_last && i + 1 == variants.len() {
        break;
      }
      if skip_next {
        skip_next = false;
        continue;
      }
      if or_patterns
        && i + 1 < variants.len()
        && !(drop_last && i + 2 == variants.len())
        && variants[i + 1].1 == *payload
        && rng.chance(2, 3)
      {
        // `A(x) | B(x) -> e`: the later alternative's names are uses of the first one's
        let taken: Vec<String> = scope.locals.iter().map(|(n, _)| n.clone()).collect();
        let mut binds: Vec<String> = Vec::new();
        for _ in payload {
          binds.push(self.fresh_lower(rng, &[taken.clone(), binds.clone()].concat()));
        }
        let mut second = binds.clone();
        if !second.is_empty() && rng.chance(1, 12) {
          second[0] = format!("{}InconsistentlyNamed{}", second[0], rng.below(100_000));
        }
        let v2 = &variants[i + 1].0;
        let pat = if payload.is_empty() {
          format!("{v} | {v2}")
        } else {
          format!("{v}({}) | {v2}({})", binds.join(", "), second.join(", "))
        };
        let saved = scope.locals.len();
        for (b, t) in binds.iter().zip(payload.iter()) {
          scope.locals.push((b.clone(), t.clone()));
        }
        let e = self.gen_expr(rng, ty, depth - 1, scope, visible);
        scope.locals.truncate(saved);
        arms.push(format!("{pat} -> {e}"));
        skip_next = true;
        continue;
      }
      let taken: Vec<String> = scope.locals.iter().map(|(n, _)| n.clone()).collect();
      let mut binds = Vec::new();
      for _ in payload {
        binds.push(if rng.chance(1, 3) { "_".to_string() } else { self.fresh_lower(rng, &[taken.clone(), binds.clone()].concat()) });
      }
      let pat = if payload.is_empty() { v.clone() } else { format!("{v}({})", binds.join(", ")) };
      let saved = scope.locals.len();
      for (b, t) in binds.iter().zip(payload.iter()) {
        if b != "_" {
          scope.locals.push((b.clone(), t.clone()));
        }
      }
      let e = self.gen_expr(rng, ty, depth - 1, scope, visible);
      scope.locals.truncate(saved);
      arms.push(format!("{pat} -> {e}"));
    }
    Some(format!("match {scrut} {{ {} }}", arms.join(", ")))
  }
}

// ------------------------------------------------------------------------------------------------
// text-level faults (the editor-side analogue of short, torn and garbled writes)

pub fn torn(rng: &mut Rng, text: &str) -> String {
  if text.is_empty() {
    return String::new();
  }
  let mut cut = rng.below(text.len());
  while !text.is_char_boundary(cut) {
    cut -= 1;
  }
  text[..cut].to_string()
}

fn tokens(text: &str) -> Vec<(usize, usize)> {
  // maximal runs of identifier characters, or single punctuation characters
  let b = text.as_bytes();
  let mut v = Vec::new();
  let mut i = 0;
  while i < b.len() {
    if b[i].is_ascii_alphanumeric() || b[i] == b'_' {
      let s = i;
      while i < b.len() && (b[i].is_ascii_alphanumeric() || b[i] == b'_') {
        i += 1;
      }
      v.push((s, i));
    } else if b[i].is_ascii_whitespace() || !b[i].is_ascii() {
      i += 1;
    } else {
      v.push((i, i + 1));
      i += 1;
    }
  }
  v
}

pub fn garbled(rng: &mut Rng, text: &str) -> String {
  let toks = tokens(text);
  if toks.is_empty() {
    return text.to_string();
  }
  let (s, e) = *rng.pick(&toks);
  match rng.below(3) {
    0 => format!("{}{}", &text[..s], &text[e..]),               // delete
    1 => format!("{}{} {}", &text[..e], &text[s..e], &text[e..]), // duplicate
    _ => {
      let (s2, e2) = *rng.pick(&toks);
      if e <= s2 {
        format!("{}{}{}{}{}", &text[..s], &text[s2..e2], &text[e..s2], &text[s..e], &text[e2..])
      } else {
        format!("{}{}", &text[..s], &text[e..])
      }
    }
  }
}

/// several token-level faults in one document (a user in the middle of a larger edit)
pub fn garbled_many(rng: &mut Rng, text: &str) -> String {
  let mut t = text.to_string();
  for _ in 0..rng.range(2, 4) {
    t = garbled(rng, &t);
  }
  t
}

/// delete one to four *names* — biased to the places where the parser expects a name and puts a
/// placeholder when there is none (after `class`, `interface`, `function`, `method`, `val`, `let`,
/// `private`, `.`, `|`, `<`, `(`, `,`)
pub fn placeholders(rng: &mut Rng, text: &str) -> String {
  let mut t = text.to_string();
  for _ in 0..rng.range(1, 4) {
    let toks = tokens(&t);
    let is_name = |k: usize| {
      let (s, e) = toks[k];
      let w = &t[s..e];
      w.as_bytes()[0].is_ascii_alphabetic()
        && !matches!(
          w,
          "class" | "interface" | "function" | "method" | "val" | "let" | "if" | "else" | "match" | "import" | "from" | "private" | "as" | "this" | "true" | "false" | "int" | "bool" | "unit"
        )
    };
    let names: Vec<usize> = (0..toks.len()).filter(|k| is_name(*k)).collect();
    let expected: Vec<usize> = names
      .iter()
      .copied()
      .filter(|k| {
        *k > 0 && {
          let (s, e) = toks[*k - 1];
          matches!(
            &t[s..e],
            "class" | "interface" | "function" | "method" | "val" | "let" | "private" | "." | "|" | "<" | "(" | ","
          )
        }
      })
      .collect();
    let declared: Vec<usize> = expected
      .iter()
      .copied()
      .filter(|k| {
        let (s, e) = toks[*k - 1];
        matches!(&t[s..e], "class" | "interface" | "|")
      })
      .collect();
    let pool = match rng.below(4) {
      0 | 1 if !declared.is_empty() => &declared,
      2 if !expected.is_empty() => &expected,
      _ => &names,
    };
    if pool.is_empty() {
      break;
    }
    let (s, e) = toks[*rng.pick(pool)];
    t = format!("{}{}", &t[..s], &t[e..]);
  }
  t
}

/// change a definition without its uses / a use without its definition
pub fn ill_typed(rng: &mut Rng, text: &str) -> String {
  let toks = tokens(text);
  let idents: Vec<(usize, usize)> = toks
    .iter()
    .copied()
    .filter(|(s, e)| {
      let t = &text[*s..*e];
      t.len() > 0
        && t.as_bytes()[0].is_ascii_alphabetic()
        && !matches!(
          t,
          "class" | "interface" | "function" | "method" | "val" | "let" | "if" | "else" | "match" | "import" | "from" | "private" | "as" | "this" | "true" | "false" | "int" | "bool" | "unit" | "Str" | "Process"
        )
    })
    .collect();
  match rng.below(3) {
    0 if !idents.is_empty() => {
      let (s, e) = *rng.pick(&idents);
      let t = &text[s..e];
      // a name that occurs nowhere else: its only roots are this occurrence and the diagnostic
      // about it
      let n = rng.below(100_000);
      let new = if t.as_bytes()[0].is_ascii_uppercase() {
        if rng.chance(1, 3) { format!("Renamed{n}") } else { format!("RenamedToSomethingVeryLong{n}") }
      } else if rng.chance(1, 3) {
        format!("renamed{n}")
      } else {
        format!("renamedToSomethingVeryLong{n}")
      };
      format!("{}{}{}", &text[..s], new, &text[e..])
    }
    1 => text.replacen(": int", ": Str", 1),
    _ => {
      let nums: Vec<(usize, usize)> =
        toks.iter().copied().filter(|(s, _)| text.as_bytes()[*s].is_ascii_digit()).collect();
      if nums.is_empty() {
        text.replacen("true", "1", 1)
      } else {
        let (s, e) = *rng.pick(&nums);
        format!("{}\"not a number, and long enough\"{}", &text[..s], &text[e..])
      }
    }
  }
}

/// positions (line, col) of the first byte of every token — the query positions
pub fn token_starts(text: &str) -> Vec<(u32, u32, bool)> {
  let mut out = Vec::new();
  let mut line_start = vec![0usize];
  for (i, c) in text.bytes().enumerate() {
    if c == b'\n' {
      line_start.push(i + 1);
    }
  }
  for (s, e) in tokens(text) {
    let line = match line_start.binary_search(&s) {
      Ok(l) => l,
      Err(l) => l - 1,
    };
    let is_upper_ident = text.as_bytes()[s].is_ascii_uppercase();
    let _ = e;
    out.push((line as u32, (s - line_start[line]) as u32, is_upper_ident));
  }
  out
}
