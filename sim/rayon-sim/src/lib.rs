//! A crate named `rayon` (patched in through `[patch.crates-io]` of the harness workspace) so that
//! the crates in /repo compile unchanged while every parallel region they open is executed by the
//! simulated worker pool (`simcore::pool`): job order, job→worker assignment and preemption at yield
//! points are decisions of the run's schedule stream, never of the OS.
//!
//! Implemented subset = what samlang uses: `par_iter()` on `HashMap`, `HashSet`, slices, `Vec`;
//! `par_iter_mut()` on slices and `Vec`; adaptors `map`, `filter_map`; consumers `for_each`,
//! `collect` (order-preserving, like rayon's indexed collect; for hash maps the input order is the
//! map's iteration order, which the hash-seed seam owns).
//! Adaptor closures run *inside* the job, so the closure's work is what gets scheduled.

use std::collections::{HashMap, HashSet};
use std::sync::Mutex;

pub mod prelude {
  pub use crate::{IntoParallelRefIterator, IntoParallelRefMutIterator};
}

pub struct Par<T, F> {
  items: Vec<T>,
  f: F,
}

fn identity<T>(t: T) -> Option<T> {
  Some(t)
}

impl<T: Send> Par<T, fn(T) -> Option<T>> {
  fn from_items(items: Vec<T>) -> Self {
    Par { items, f: identity::<T> }
  }
}

impl<T: Send, R: Send, F: Fn(T) -> Option<R> + Sync> Par<T, F> {
  pub fn map<R2: Send, G: Fn(R) -> R2 + Sync>(self, g: G) -> Par<T, impl Fn(T) -> Option<R2> + Sync> {
    let f = self.f;
    Par { items: self.items, f: move |t| f(t).map(&g) }
  }

  pub fn filter_map<R2: Send, G: Fn(R) -> Option<R2> + Sync>(
    self,
    g: G,
  ) -> Par<T, impl Fn(T) -> Option<R2> + Sync> {
    let f = self.f;
    Par { items: self.items, f: move |t| f(t).and_then(&g) }
  }

  pub fn filter<G: Fn(&R) -> bool + Sync>(self, g: G) -> Par<T, impl Fn(T) -> Option<R> + Sync> {
    let f = self.f;
    Par { items: self.items, f: move |t| f(t).filter(&g) }
  }

  fn run(self) -> Vec<Option<R>> {
    let Par { items, f } = self;
    let n = items.len();
    let slots: Vec<Mutex<Option<T>>> = items.into_iter().map(|t| Mutex::new(Some(t))).collect();
    simcore::pool::run_region(n, &|i| {
      let item = slots[i].lock().unwrap().take().expect("job started twice");
      f(item)
    })
  }

  pub fn for_each<G: Fn(R) + Sync>(self, g: G) {
    let _ = self.map(g).run();
  }

  pub fn collect<C: FromIterator<R>>(self) -> C {
    self.run().into_iter().flatten().collect()
  }
}

pub trait IntoParallelRefIterator<'a> {
  type Item: Send + 'a;
  fn par_iter(&'a self) -> Par<Self::Item, fn(Self::Item) -> Option<Self::Item>>;
}

pub trait IntoParallelRefMutIterator<'a> {
  type Item: Send + 'a;
  fn par_iter_mut(&'a mut self) -> Par<Self::Item, fn(Self::Item) -> Option<Self::Item>>;
}

impl<'a, K: Sync + 'a, V: Sync + 'a, S: 'a> IntoParallelRefIterator<'a> for HashMap<K, V, S> {
  type Item = (&'a K, &'a V);
  fn par_iter(&'a self) -> Par<Self::Item, fn(Self::Item) -> Option<Self::Item>> {
    Par::from_items(self.iter().collect())
  }
}

impl<'a, T: Sync + 'a, S: 'a> IntoParallelRefIterator<'a> for HashSet<T, S> {
  type Item = &'a T;
  fn par_iter(&'a self) -> Par<Self::Item, fn(Self::Item) -> Option<Self::Item>> {
    Par::from_items(self.iter().collect())
  }
}

impl<'a, T: Sync + 'a> IntoParallelRefIterator<'a> for [T] {
  type Item = &'a T;
  fn par_iter(&'a self) -> Par<Self::Item, fn(Self::Item) -> Option<Self::Item>> {
    Par::from_items(self.iter().collect())
  }
}

impl<'a, T: Sync + 'a> IntoParallelRefIterator<'a> for Vec<T> {
  type Item = &'a T;
  fn par_iter(&'a self) -> Par<Self::Item, fn(Self::Item) -> Option<Self::Item>> {
    Par::from_items(self.iter().collect())
  }
}

impl<'a, T: Send + 'a> IntoParallelRefMutIterator<'a> for [T] {
  type Item = &'a mut T;
  fn par_iter_mut(&'a mut self) -> Par<Self::Item, fn(Self::Item) -> Option<Self::Item>> {
    Par::from_items(self.iter_mut().collect())
  }
}

impl<'a, T: Send + 'a> IntoParallelRefMutIterator<'a> for Vec<T> {
  type Item = &'a mut T;
  fn par_iter_mut(&'a mut self) -> Par<Self::Item, fn(Self::Item) -> Option<Self::Item>> {
    Par::from_items(self.iter_mut().collect())
  }
}
