//! compile-sim — engine for C12 (DESIGN 4.5).
//!
//! System under test: `samlang_compiler::compile_sources` end to end (parser, checker, lowering,
//! optimizer, both back ends), then the emitted `.wasm.js` / `.ts` programs under node >= 22.
//! Simulated: hash seeds (getrandom seam), module enumeration order, rayon (simulated pool with W
//! workers, preemption at the temp-name counter through hook H1).
//! Oracle: every configuration of a program must give the same verdict, the same rendered
//! diagnostics and — when accepted — the same observable behaviour as the reference configuration.
//!
//! usage: compile-sim [--tier quick|thorough] [--seconds S] [--replay FILE [--print-signature]]
//!                    [--digests FILE]

mod programs;

use programs::{Program, ProgramKind};
use serde_json::{json, Value};
use simcore::report::{Counters, Evidence, Violation};
use simcore::rng::{self, Rng};
use simcore::{panics, pool, Fnv};
use std::collections::{BTreeMap, HashMap};
use std::sync::atomic::AtomicBool;
use std::sync::Mutex;

simcore::install_getrandom_shim!();

const PROPERTY: &str = "C12";
const RUN_STACK: usize = 512 << 20;

#[derive(Clone, Debug)]
pub struct Config {
  pub hash_seed: u64,
  pub sched_seed: u64,
  pub workers: usize,
  /// "fifo" | "uniform" | "sticky" | "pct"
  pub policy: String,
  /// seed of the permutation of the module allocation order; 0 = sorted by name
  pub order_seed: u64,
  pub run_ts: bool,
  /// mean number of basic-block edges between two preemptions of a worker; 0 = workers yield only
  /// at the explicit yield point of hook H1
  pub quantum: u64,
}

impl Config {
  fn reference() -> Config {
    Config { hash_seed: 0, sched_seed: 0, workers: 1, policy: "fifo".into(), order_seed: 0, run_ts: true, quantum: 0 }
  }
  fn to_json(&self) -> Value {
    json!({"hash_seed": self.hash_seed, "sched_seed": self.sched_seed, "workers": self.workers, "policy": self.policy, "order_seed": self.order_seed, "run_ts": self.run_ts, "quantum": self.quantum})
  }
  fn from_json(v: &Value) -> Config {
    Config {
      hash_seed: v["hash_seed"].as_u64().unwrap_or(0),
      sched_seed: v["sched_seed"].as_u64().unwrap_or(0),
      workers: v["workers"].as_u64().unwrap_or(1) as usize,
      policy: v["policy"].as_str().unwrap_or("fifo").to_string(),
      order_seed: v["order_seed"].as_u64().unwrap_or(0),
      run_ts: v["run_ts"].as_bool().unwrap_or(false),
      quantum: v["quantum"].as_u64().unwrap_or(0),
    }
  }
  fn generate(run_seed: u64, kind: ProgramKind) -> Config {
    let mut s = rng::stream(run_seed, rng::STREAM_SCHEDULE);
    let mut h = rng::stream(run_seed, rng::STREAM_HASH);
    let mut w = rng::stream(run_seed, rng::STREAM_WORKLOAD);
    let workers = match s.below(10) {
      0 | 1 => 1,
      2 | 3 => 2,
      4 | 5 => s.range(3, 4),
      6 | 7 => s.range(5, 8),
      _ => s.range(9, 16),
    };
    let policy = match s.below(8) {
      0 => "fifo",
      1 | 2 => "uniform",
      3 => "sticky",
      4 | 5 => "spread",
      _ => "pct",
    };
    Config {
      hash_seed: h.next_u64() | 1,
      sched_seed: s.next_u64(),
      workers,
      policy: policy.into(),
      order_seed: if w.chance(1, 8) { 0 } else { w.next_u64() | 1 },
      run_ts: kind != ProgramKind::IllTyped && w.chance(1, 3),
      // a preemption costs two thread hand-overs; short quanta only now and then
      quantum: if workers == 1 { 0 } else { *s.pick(&[0u64, 0, 300_000, 300_000, 30_000, 30_000, 3_000, 300]) },
    }
  }
}

#[derive(Clone, Debug, PartialEq)]
pub struct NodeRun {
  pub stdout: String,
  pub status: i32,
  pub first_stderr_line: String,
}

#[derive(Clone, Debug)]
pub enum Outcome {
  Rejected(String),
  CompilerPanic(String),
  Accepted { wasm: Vec<(String, NodeRun)>, ts: Vec<(String, NodeRun)>, output_hash: u64 },
}

pub struct RunReport {
  pub outcome: Outcome,
  pub pool: pool::PoolStats,
  pub decisions: u64,
  pub order_reversed: bool,
}

fn node_path() -> String {
  std::env::var("VERIF_NODE").unwrap_or_else(|_| "node".into())
}

/// How long an emitted program may run (real time). The reference programs finish in well under a
/// second; a miscompiled one may loop for ever (seen with seeded change C12-i), and "does not
/// terminate" has to be an observation, not a hang of the check.
fn node_timeout() -> std::time::Duration {
  std::time::Duration::from_secs(std::env::var("VERIF_NODE_TIMEOUT").ok().and_then(|s| s.parse().ok()).unwrap_or(90))
}

fn run_node_with_timeout(dir: &std::path::Path, args: &[&str]) -> std::io::Result<std::process::Output> {
  use std::process::Stdio;
  let out_path = dir.join(".node.stdout");
  let err_path = dir.join(".node.stderr");
  let mut child = std::process::Command::new(node_path())
    .args(args)
    .current_dir(dir)
    .stdin(Stdio::null())
    .stdout(std::fs::File::create(&out_path)?)
    .stderr(std::fs::File::create(&err_path)?)
    .spawn()?;
  let started = std::time::Instant::now();
  let status = loop {
    if let Some(st) = child.try_wait()? {
      break Some(st);
    }
    if started.elapsed() > node_timeout() {
      let _ = child.kill();
      let _ = child.wait();
      break None;
    }
    std::thread::sleep(std::time::Duration::from_millis(if started.elapsed().as_millis() < 200 { 2 } else { 20 }));
  };
  let stdout = std::fs::read(&out_path).unwrap_or_default();
  let mut stderr = std::fs::read(&err_path).unwrap_or_default();
  let _ = std::fs::remove_file(&out_path);
  let _ = std::fs::remove_file(&err_path);
  match status {
    Some(st) => Ok(std::process::Output { status: st, stdout, stderr }),
    None => {
      use std::os::unix::process::ExitStatusExt;
      stderr = b"the program did not terminate within the time limit".to_vec();
      Ok(std::process::Output { status: std::process::ExitStatus::from_raw(124 << 8), stdout: Vec::new(), stderr })
    }
  }
}

fn run_node(dir: &std::path::Path, args: &[&str]) -> NodeRun {
  let out = run_node_with_timeout(dir, args);
  match out {
    Ok(o) => NodeRun {
      stdout: String::from_utf8_lossy(&o.stdout).to_string(),
      status: o.status.code().unwrap_or(-1),
      first_stderr_line: String::from_utf8_lossy(&o.stderr)
        .lines()
        .find(|l| !l.trim().is_empty())
        .unwrap_or("")
        .replace(&dir.display().to_string(), "<dir>")
        .chars()
        .take(200)
        .collect(),
    },
    Err(e) => {
      eprintln!("HARNESS ERROR: cannot run node ({}): {e}", node_path());
      pool::HARNESS_ERROR.store(true, std::sync::atomic::Ordering::SeqCst);
      NodeRun { stdout: String::new(), status: -2, first_stderr_line: format!("spawn failed: {e}") }
    }
  }
}

fn work_dir(tag: &str) -> std::path::PathBuf {
  let root = simcore::report::verif_root().join("sim").join("target").join("c12-work");
  let dir = root.join(format!("{}-{}", std::process::id(), tag));
  let _ = std::fs::remove_dir_all(&dir);
  std::fs::create_dir_all(&dir).expect("create work dir");
  dir
}

/// One simulated compile of `program` under `cfg`, plus the behaviour of what it emitted.
pub fn execute(program: &Program, cfg: &Config, tag: &str) -> RunReport {
  simcore::hashseed::enter(cfg.hash_seed);
  let policy = match cfg.policy.as_str() {
    "fifo" => pool::Policy::Fifo,
    "uniform" => pool::Policy::Uniform { stick: 0 },
    "sticky" => pool::Policy::Uniform { stick: 90 },
    "spread" => pool::Policy::Spread,
    _ => pool::Policy::Pct { changes: 3 },
  };
  pool::install(pool::PoolConfig {
    workers: cfg.workers,
    schedule: pool::Schedule::Seeded { rng: Rng::new(cfg.sched_seed), policy },
    quantum_mean: cfg.quantum,
  });
  // module enumeration order = order in which module references are allocated
  let mut names: Vec<&Vec<String>> = program.sources.keys().collect();
  let sorted = names.clone();
  if cfg.order_seed != 0 {
    Rng::new(cfg.order_seed).shuffle(&mut names);
  }
  let order_reversed = names.len() > 3 && names.iter().rev().zip(sorted.iter()).take(names.len()).filter(|(a, b)| a == b).count() * 2 > names.len();
  let result = panics::catch(|| {
    let mut heap = samlang_heap::Heap::new();
    let mut handles = HashMap::new();
    for n in &names {
      let mr = heap.alloc_module_reference_from_string_vec((*n).clone());
      handles.insert(mr, program.sources[*n].clone());
    }
    let entries: Vec<samlang_heap::ModuleReference> =
      program.entry_points.iter().map(|e| heap.alloc_module_reference_from_string_vec(e.clone())).collect();
    samlang_compiler::compile_sources(&mut heap, handles, entries, false)
  });
  let report = pool::uninstall().expect("pool report");
  let decisions = report.decisions.len() as u64;
  let outcome = match result {
    Err(pr) => Outcome::CompilerPanic(format!("{}: {}", pr.place(), pr.short_message())),
    Ok(Err(text)) => Outcome::Rejected(text),
    Ok(Ok(res)) => {
      let dir = work_dir(tag);
      let mut h = Fnv::new();
      for (file, content) in &res.text_code_results {
        std::fs::write(dir.join(file), content).expect("write output");
        h.str(file);
        h.str(content);
      }
      std::fs::write(dir.join("__all__.wasm"), &res.wasm_file).expect("write wasm");
      h.bytes(&res.wasm_file);
      let mut wasm = Vec::new();
      let mut ts = Vec::new();
      for e in &program.entry_points {
        let name = e.join(".");
        wasm.push((name.clone(), run_node(&dir, &[&format!("{name}.wasm.js")])));
        if cfg.run_ts {
          ts.push((name.clone(), run_node(&dir, &["--experimental-strip-types", "--no-warnings", &format!("{name}.ts")])));
        }
      }
      let _ = std::fs::remove_dir_all(&dir);
      Outcome::Accepted { wasm, ts, output_hash: h.finish() }
    }
  };
  RunReport { outcome, pool: report.stats, decisions, order_reversed }
}

// ------------------------------------------------------------------------------------------------
// comparison

fn split_error_blocks(text: &str) -> Vec<String> {
  // blocks start at "Error ----" lines; the trailing "Found N errors." line is kept apart
  let mut blocks: Vec<String> = Vec::new();
  for line in text.split('\n') {
    if line.starts_with("Error ---") || line.starts_with("Found ") || blocks.is_empty() {
      blocks.push(String::new());
    }
    let b = blocks.last_mut().unwrap();
    b.push_str(line);
    b.push('\n');
  }
  blocks
}

fn canonical_block(block: &str) -> String {
  // the known order-of-names finding (F7): sort runs of "- `x`" lines, drop the counter-example
  let mut lines: Vec<String> = block.split('\n').map(|s| s.to_string()).collect();
  let mut i = 0;
  while i < lines.len() {
    if lines[i].starts_with("- `") {
      let mut j = i;
      while j < lines.len() && lines[j].starts_with("- `") {
        j += 1;
      }
      lines[i..j].sort();
      i = j;
    } else {
      if let Some(k) = lines[i].find("Here is an example of a non-matching value: `") {
        lines[i].truncate(k);
      }
      if let (Some(a), true) = (lines[i].find("Expected bindings: ["), lines[i].contains("Or-pattern")) {
        lines[i].truncate(a);
      }
      i += 1;
    }
  }
  lines.join("\n")
}

fn block_kind(block: &str) -> &'static str {
  if block.contains("must be implemented for the class") {
    "MissingClassMemberDefinitions"
  } else if block.contains("names have not been mentioned") {
    "NonExhaustiveStructBinding"
  } else if block.contains("non-matching value") {
    "NonExhaustiveMatch"
  } else if block.contains("Or-pattern alternatives") {
    "OrPatternInconsistentBindings"
  } else {
    "other"
  }
}

/// None = same; Some((signature, detail))
pub fn compare(reference: &Outcome, other: &Outcome) -> Option<(String, String)> {
  match (reference, other) {
    (Outcome::Rejected(a), Outcome::Rejected(b)) => {
      if a == b {
        return None;
      }
      let (ba, bb) = (split_error_blocks(a), split_error_blocks(b));
      let (mut sa, mut sb) = (ba.clone(), bb.clone());
      sa.sort();
      sb.sort();
      if sa == sb {
        return Some((
          "diagnostics|order_of_errors_across_modules".into(),
          "the same errors are printed in a different order (errors are ordered by module reference ordinal, i.e. by module enumeration order)".into(),
        ));
      }
      let (mut ca, mut cb): (Vec<String>, Vec<String>) = (ba.iter().map(|b| canonical_block(b)).collect(), bb.iter().map(|b| canonical_block(b)).collect());
      ca.sort();
      cb.sort();
      if ca == cb {
        // which kind differs
        for x in &sa {
          if !sb.contains(x) {
            let k = block_kind(x);
            // the recorded findings (F7) can only swap or choose among names of 16 bytes or more
            let cx = canonical_block(x);
            let counterpart = sb.iter().find(|y| !sa.contains(*y) && canonical_block(y) == cx);
            let f7 = counterpart.map(|y| simcore::explained_by_order_of_long_names(x, y)).unwrap_or(false);
            let what = match (k == "NonExhaustiveMatch", f7) {
              (true, true) => "counterexample_choice",
              (true, false) => "counterexample_choice_not_by_long_names",
              (false, true) => "list_order",
              (false, false) => "list_order_not_by_long_names",
            };
            return Some((
              format!("diagnostics|{what}|{k}"),
              format!("same diagnostic up to the order / choice of listed names:\n{x}\n--- the other configuration prints ---\n{}", counterpart.cloned().unwrap_or_default()),
            ));
          }
        }
      }
      let first = sa.iter().find(|x| !sb.contains(x)).cloned().unwrap_or_default();
      Some(("diagnostics|text".into(), format!("rendered diagnostics differ; only in the reference configuration:\n{first}")))
    }
    (Outcome::Accepted { wasm: wa, ts: ta, .. }, Outcome::Accepted { wasm: wb, ts: tb, .. }) => {
      for ((e, a), (_, b)) in wa.iter().zip(wb.iter()) {
        if a != b {
          return Some((format!("behaviour|wasm|{e}"), diff_runs(a, b)));
        }
      }
      // the reference always runs the .ts; others only sometimes
      for (e, b) in tb {
        if let Some((_, a)) = ta.iter().find(|(x, _)| x == e) {
          if a != b {
            return Some((format!("behaviour|ts|{e}"), diff_runs(a, b)));
          }
        }
      }
      None
    }
    (Outcome::CompilerPanic(a), Outcome::CompilerPanic(b)) if a == b => None,
    (a, b) => Some((format!("verdict|{}_vs_{}", verdict_name(a), verdict_name(b)), format!("reference: {}; this configuration: {}", verdict_text(a), verdict_text(b)))),
  }
}

fn verdict_name(o: &Outcome) -> &'static str {
  match o {
    Outcome::Rejected(_) => "rejected",
    Outcome::CompilerPanic(_) => "panic",
    Outcome::Accepted { .. } => "accepted",
  }
}

fn verdict_text(o: &Outcome) -> String {
  match o {
    Outcome::Rejected(t) => format!("rejected ({} bytes of diagnostics)", t.len()),
    Outcome::CompilerPanic(t) => format!("compiler panicked at {t}"),
    Outcome::Accepted { .. } => "accepted".into(),
  }
}

fn diff_runs(a: &NodeRun, b: &NodeRun) -> String {
  if a.status != b.status {
    return format!("exit status {} vs {}; stderr `{}` vs `{}`", a.status, b.status, a.first_stderr_line, b.first_stderr_line);
  }
  if a.first_stderr_line != b.first_stderr_line {
    return format!("stderr `{}` vs `{}`", a.first_stderr_line, b.first_stderr_line);
  }
  let (la, lb): (Vec<&str>, Vec<&str>) = (a.stdout.lines().collect(), b.stdout.lines().collect());
  for i in 0..la.len().max(lb.len()) {
    if la.get(i) != lb.get(i) {
      return format!("stdout differs at line {}: `{}` vs `{}`", i + 1, la.get(i).unwrap_or(&"<eof>"), lb.get(i).unwrap_or(&"<eof>"));
    }
  }
  "outputs differ".into()
}

// ------------------------------------------------------------------------------------------------

fn arg_value(args: &[String], name: &str) -> Option<String> {
  args.iter().position(|a| a == name).and_then(|i| args.get(i + 1).cloned())
}

fn replay_json(seed: u64, program: &Program, cfg: &Config, signature: &str, detail: &str) -> Value {
  json!({
    "engine": "compile-sim",
    "property": PROPERTY,
    "seed": seed,
    "signature": signature,
    "detail": detail,
    "program": program.to_json(),
    "reference_config": Config::reference().to_json(),
    "config": cfg.to_json(),
  })
}

/// Shrinks the program of a violation (synthetic programs only: their modules are stored verbatim
/// in the replay): drop whole modules, then blank-line separated blocks, then single lines, keeping
/// a candidate when reference and configuration still disagree with the same signature.
fn minimise_program(program: &Program, cfg: &Config, signature: &str) -> Program {
  if program.kind == ProgramKind::AllTests || program.kind == ProgramKind::SingleTest {
    return program.clone();
  }
  let start = std::time::Instant::now();
  let budget = std::time::Duration::from_secs(90);
  let fails = |p: &Program| -> bool {
    let r0 = simcore::runner::run_one(RUN_STACK, || execute(p, &Config::reference(), "minp-ref"));
    let r1 = simcore::runner::run_one(RUN_STACK, || execute(p, cfg, "minp"));
    compare(&r0.outcome, &r1.outcome).map(|(s, _)| s == signature).unwrap_or(false)
  };
  let mut cur = program.clone();
  // modules
  for m in program.sources.keys() {
    if start.elapsed() > budget || cur.entry_points.contains(m) || !cur.overrides.contains(m) {
      continue;
    }
    let mut cand = cur.clone();
    cand.sources.remove(m);
    cand.overrides.remove(m);
    if fails(&cand) {
      cur = cand;
    }
  }
  // blocks, then lines
  for sep in ["\n\n", "\n"] {
    let mods: Vec<_> = cur.overrides.iter().cloned().collect();
    for m in mods {
      let mut i = 0;
      loop {
        if start.elapsed() > budget {
          return cur;
        }
        let text = cur.sources[&m].clone();
        let parts: Vec<&str> = text.split(sep).collect();
        if i >= parts.len() || parts.len() <= 1 {
          break;
        }
        let mut kept = parts.clone();
        kept.remove(i);
        let mut cand = cur.clone();
        cand.sources.insert(m.clone(), kept.join(sep));
        if fails(&cand) {
          cur = cand;
        } else {
          i += 1;
        }
      }
    }
  }
  cur
}

fn minimise(program: &Program, cfg: &Config, signature: &str, reference: &Outcome) -> Config {
  let fails = |c: &Config| -> bool {
    let r = simcore::runner::run_one(RUN_STACK, || execute(program, c, "min"));
    compare(reference, &r.outcome).map(|(s, _)| s == signature).unwrap_or(false)
  };
  let mut cur = cfg.clone();
  let steps: Vec<fn(&mut Config)> = vec![
    |c| c.workers = 1,
    |c| c.policy = "fifo".into(),
    |c| c.order_seed = 0,
    |c| c.hash_seed = 0,
    |c| c.run_ts = false,
  ];
  for f in steps {
    let mut cand = cur.clone();
    f(&mut cand);
    if fails(&cand) {
      cur = cand;
    }
  }
  cur
}

fn main() {
  panics::install_hook();
  samlang_heap::verif_hooks::set_yield_callback(pool::yield_hook);
  let args: Vec<String> = std::env::args().skip(1).collect();
  let seed = rng::verif_seed();

  if let Some(path) = arg_value(&args, "--replay") {
    let v = simcore::report::read_json(std::path::Path::new(&path));
    let program = Program::from_json(&v["program"]);
    let cfg = Config::from_json(&v["config"]);
    let reference = simcore::runner::run_one(RUN_STACK, || execute(&program, &Config::reference(), "replay-ref"));
    let r = simcore::runner::run_one(RUN_STACK, || execute(&program, &cfg, "replay"));
    match compare(&reference.outcome, &r.outcome) {
      Some((sig, detail)) => {
        println!("SIGNATURE {sig}");
        let known = simcore::report::KnownFindings::load();
        if let Some(what) = known.lookup(PROPERTY, &sig) {
          println!("KNOWN-FINDING: property={PROPERTY} {sig} — {what}");
          std::process::exit(0);
        }
        println!("violation: {detail}");
        println!("VIOLATION property={PROPERTY} replay={path}");
        std::process::exit(1);
      }
      None => {
        println!("replay held: configuration agrees with the reference configuration");
        std::process::exit(0);
      }
    }
  }

  let tier = arg_value(&args, "--tier").unwrap_or_else(|| "quick".into());
  let thorough = tier == "thorough";
  let mult: u64 = if thorough { 40 } else { 1 };
  let seconds: Option<u64> = arg_value(&args, "--seconds").and_then(|s| s.parse().ok()).or(if thorough { Some(2400) } else { None });
  let digests_path = arg_value(&args, "--digests");
  let start = std::time::Instant::now();

  let corpus = programs::Corpus::load();
  let mut gen_rng = rng::stream(seed, 77);
  let mut programs: Vec<(Program, u64)> = Vec::new(); // (program, number of non-reference configs)
  let p1_configs: u64 = arg_value(&args, "--p1").and_then(|s| s.parse().ok()).unwrap_or(23 * mult);
  programs.push((corpus.p1(), p1_configs));
  let p2_programs: usize = arg_value(&args, "--p2").and_then(|s| s.parse().ok()).unwrap_or(40);
  for p in corpus.p2(&mut gen_rng, p2_programs) {
    programs.push((p, 3 * mult));
  }
  let p3_programs: usize = arg_value(&args, "--p3").and_then(|s| s.parse().ok()).unwrap_or(60);
  for k in 0..p3_programs {
    programs.push((corpus.p3(&mut gen_rng, k), 5 * mult));
  }
  let p4_programs: usize = arg_value(&args, "--p4").and_then(|s| s.parse().ok()).unwrap_or(80);
  for k in 0..p4_programs {
    programs.push((corpus.p4(&mut gen_rng, k), 7 * mult));
  }
  for p in corpus.shapes() {
    programs.push((p, 24 * mult));
  }
  // job list: (program index, config index); config 0 is the reference
  let mut jobs: Vec<(usize, u64)> = Vec::new();
  for (pi, (_, n)) in programs.iter().enumerate() {
    for c in 0..=*n {
      jobs.push((pi, c));
    }
  }
  // big programs first so that the tail of the batch is short
  jobs.sort_by_key(|(pi, c)| (programs[*pi].0.kind != ProgramKind::AllTests, *c != 0, *pi, *c));

  let mut ev = Evidence::new(PROPERTY, &tier, seed);
  ev.rule = "one run = one simulated compile of one program under one configuration (hash seed, module enumeration order, W simulated workers, scheduling policy incl. preemption at the temp-name counter) compared with the reference configuration of the same program (hash seed 0, sorted modules, W=1, FIFO): verdict, rendered diagnostics, and behaviour under node of every entry point's .wasm.js (and .ts on a third of the runs). Non-trivial and distinct = distinct (program, emitted-output hash) pairs whose output hash differs from the reference's, i.e. the nondeterminism demonstrably changed the emitted code and behaviour was still compared; for rejected programs: distinct (program, configuration) pairs whose module enumeration order or hash seed differ from the reference.".into();
  ev.faults_fired.declare(&["preemption_at_temp_counter", "module_order_permuted", "hash_seed_changed", "workers_gt_1", "workers_ge_8_all_busy", "policy_pct", "policy_sticky", "policy_uniform", "policy_spread", "policy_fifo"]);
  ev.probes.declare(&["emitted_output_differs_from_reference", "accepted_programs_compared", "rejected_programs_compared", "ts_output_compared", "rejected_with_errors_in_3_or_more_modules", "diagnostic_listing_3_or_more_names", "module_order_mostly_reversed"]);
  ev.components = json!({
    "real": ["samlang_compiler::compile_sources (parser, checker, HIR/MIR/LIR lowering, optimizer, wasm + TS back ends)", "node >= 22 executing the emitted .wasm.js / .ts"],
    "simulated": ["hash seeds (libc getrandom seam)", "module enumeration order (allocation order of module references)", "rayon -> simulated worker pool with W workers; preemption at temp-name allocations (hook H1) and, in the edge-instrumented build that ./check C12 uses, after seeded quanta of basic-block edges anywhere in samlang; preempted workers are stalled now and then; a worker that sleeps on a lock held across a preemption is detected and the baton taken back"],
    "stubbed": ["cli/main.rs file collection and output writing (the harness allocates module references and writes the outputs itself)"]
  });
  ev.assumptions = vec![
    "V8 / node is trusted to execute the emitted modules faithfully".into(),
    "one simulated worker executes at a time: interleavings are at basic-block granularity, memory-model races (torn or reordered accesses) are not visible".into(),
    "the rayon facade preserves rayon's contract (independent jobs, order-preserving collect) and over-approximates its schedules".into(),
  ];

  struct Done {
    outcome: Outcome,
    cfg: Config,
    stats: pool::PoolStats,
    decisions: u64,
    order_reversed: bool,
  }
  let results: Mutex<BTreeMap<(usize, u64), Done>> = Mutex::new(BTreeMap::new());
  let stop = AtomicBool::new(false);
  let cfg_runner = simcore::runner::RunnerConfig {
    runs: jobs.len() as u64,
    threads: simcore::runner::harness_threads(),
    stack_bytes: RUN_STACK,
    deadline: seconds.map(std::time::Duration::from_secs),
  };
  let executed = simcore::runner::run_many(
    &cfg_runner,
    &|i| {
      let (pi, c) = jobs[i as usize];
      let program = &programs[pi].0;
      let cfg = if c == 0 { Config::reference() } else { Config::generate(rng::run_seed(seed, (pi as u64) << 20 | c), program.kind) };
      let r = execute(program, &cfg, &format!("{pi}-{c}"));
      (pi, c, cfg, r)
    },
    &mut |_, (pi, c, cfg, r): (usize, u64, Config, RunReport)| {
      results.lock().unwrap().insert((pi, c), Done { outcome: r.outcome, cfg, stats: r.pool, decisions: r.decisions, order_reversed: r.order_reversed });
    },
    &stop,
  );
  let results = results.into_inner().unwrap();

  // compare every configuration with the reference of its program
  let mut found: BTreeMap<String, (usize, Config, String)> = BTreeMap::new();
  let mut digests: Vec<(u64, u64)> = Vec::new();
  let mut kinds = Counters::default();
  for ((pi, c), d) in &results {
    let program = &programs[*pi].0;
    ev.steps += d.decisions + 1;
    let mut dg = Fnv::new();
    match &d.outcome {
      Outcome::Rejected(t) => {
        dg.str("rejected");
        dg.str(t);
      }
      Outcome::CompilerPanic(t) => {
        dg.str("panic");
        dg.str(t);
      }
      Outcome::Accepted { wasm, output_hash, .. } => {
        dg.u64(*output_hash);
        for (_, r) in wasm {
          dg.str(&r.stdout);
        }
      }
    }
    dg.u64(d.decisions);
    digests.push((((*pi as u64) << 20) | *c, dg.finish()));
    if *c == 0 {
      continue;
    }
    let Some(reference) = results.get(&(*pi, 0)) else { continue };
    ev.evaluations += 1;
    kinds.inc(program.kind.name());
    ev.faults_fired.add("preemption_at_temp_counter", d.stats.preemptions);
    ev.faults_fired.add("preemption_at_quantum_expiry", d.stats.quantum_expiries);
    ev.faults_fired.add("worker_blocked_on_a_lock_held_across_a_preemption", d.stats.blocked_workers);
    ev.faults_fired.add("worker_stalled_after_preemption", d.stats.stalls);
    if d.cfg.order_seed != 0 {
      ev.faults_fired.inc("module_order_permuted");
    }
    ev.faults_fired.inc("hash_seed_changed");
    if d.cfg.workers > 1 {
      ev.faults_fired.inc("workers_gt_1");
    }
    if d.cfg.workers >= 8 && d.stats.all_workers_busy > 0 {
      ev.faults_fired.inc("workers_ge_8_all_busy");
    }
    ev.faults_fired.inc(&format!("policy_{}", d.cfg.policy));
    if d.order_reversed {
      ev.probes.inc("module_order_mostly_reversed");
    }
    match (&reference.outcome, &d.outcome) {
      (Outcome::Accepted { output_hash: a, .. }, Outcome::Accepted { output_hash: b, ts, .. }) => {
        ev.probes.inc("accepted_programs_compared");
        if !ts.is_empty() {
          ev.probes.inc("ts_output_compared");
        }
        if a != b {
          ev.probes.inc("emitted_output_differs_from_reference");
          let mut f = Fnv::new();
          f.u64(*pi as u64);
          f.u64(*b);
          ev.distinct.insert(f.finish());
        }
      }
      (Outcome::Rejected(t), Outcome::Rejected(_)) => {
        ev.probes.inc("rejected_programs_compared");
        let modules: std::collections::BTreeSet<&str> = t.lines().filter(|l| l.starts_with("Error ---")).filter_map(|l| l.split_whitespace().last()).map(|l| l.split(".sam").next().unwrap_or("")).collect();
        if modules.len() >= 3 {
          ev.probes.inc("rejected_with_errors_in_3_or_more_modules");
        }
        if t.contains("\n- `") && t.split("\n- `").count() >= 4 {
          ev.probes.inc("diagnostic_listing_3_or_more_names");
        }
        let mut f = Fnv::new();
        f.u64(*pi as u64);
        f.u64(d.cfg.hash_seed);
        f.u64(d.cfg.order_seed);
        ev.distinct.insert(f.finish());
      }
      _ => {}
    }
    if let Some((sig, detail)) = compare(&reference.outcome, &d.outcome) {
      found.entry(sig).or_insert((*pi, d.cfg.clone(), detail));
    }
  }
  // samples
  for (pi, c) in [(0usize, 1u64), (1, 1), (programs.len() - 1, 1), (42, 1)] {
    if let Some(d) = results.get(&(pi, c)) {
      ev.samples.push(json!({
        "program": programs[pi].0.summary(),
        "config": d.cfg.to_json(),
        "pool": {"regions": d.stats.regions, "threaded_regions": d.stats.threaded_regions, "jobs": d.stats.jobs, "decisions": d.decisions, "yields": d.stats.yields, "preemptions_taken": d.stats.preemptions, "quantum_expiries": d.stats.quantum_expiries, "blocked_workers": d.stats.blocked_workers, "max_inflight": d.stats.max_inflight},
        "outcome": verdict_text(&d.outcome),
        "agrees_with_reference": results.get(&(pi, 0)).map(|r| compare(&r.outcome, &d.outcome).is_none()),
      }));
    }
  }
  ev.extra.insert("runs_by_program_kind".into(), kinds.to_json());
  ev.extra.insert("programs".into(), json!(programs.len()));
  ev.extra.insert("programs_by_kind".into(), json!({"P1_all_tests": 1, "P2_single_test_entry_points": programs.iter().filter(|p| p.0.kind == ProgramKind::SingleTest).count(), "P3_ill_typed": programs.iter().filter(|p| p.0.kind == ProgramKind::IllTyped).count(), "P4_synthetic_well_typed": programs.iter().filter(|p| p.0.kind == ProgramKind::Synthetic).count()}));
  ev.extra.insert("node".into(), json!(node_path()));
  ev.extra.insert("reference_runs".into(), json!(results.keys().filter(|k| k.1 == 0).count()));

  if let Some(p) = digests_path {
    digests.sort();
    let text: String = digests.iter().map(|(i, h)| format!("{i} {h:016x}\n")).collect();
    std::fs::write(p, text).expect("write digests");
  }

  let known = simcore::report::KnownFindings::load();
  let mut violations = Vec::new();
  for (sig, (pi, cfg, detail)) in found {
    let program = &programs[pi].0;
    let small = if known.lookup(PROPERTY, &sig).is_some() {
      cfg.clone()
    } else {
      match results.get(&(pi, 0)) {
        Some(reference) => minimise(program, &cfg, &sig, &reference.outcome),
        None => cfg.clone(),
      }
    };
    let small_program = if known.lookup(PROPERTY, &sig).is_some() { program.clone() } else { minimise_program(program, &small, &sig) };
    violations.push(Violation {
      property: PROPERTY.into(),
      signature: sig.clone(),
      description: format!("program {}: {detail}", program.name),
      replay: replay_json(seed, &small_program, &small, &sig, &detail),
    });
  }
  let outcome = simcore::report::conclude(PROPERTY, seed, violations, &[]);
  ev.violations = outcome.unlisted;
  ev.known_findings_matched = outcome.known.clone();
  let wall = start.elapsed().as_secs_f64();
  ev.write(wall);
  println!(
    "C12 {tier}: {executed} simulated compiles ({} compared with their reference), {} distinct non-trivial, {:.1}s, exit {}",
    ev.evaluations,
    ev.distinct.len(),
    wall,
    outcome.exit_code
  );
  std::process::exit(outcome.exit_code);
}
