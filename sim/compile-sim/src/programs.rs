//! Programs pushed through many configurations: P1 (the repository's own test suite), P2 (one
//! synthesized entry point per test module), P3 (ill-typed programs with list-valued and
//! multi-module diagnostics).

use serde_json::{json, Value};
use simcore::rng::Rng;
use std::collections::{BTreeMap, BTreeSet};

pub type ModName = Vec<String>;

#[derive(Clone, Copy, Debug, PartialEq, Eq)]
pub enum ProgramKind {
  AllTests,
  SingleTest,
  IllTyped,
  /// synthetic well-typed multi-module programs (call DAG across modules, wrappers forwarding
  /// parameters, constants at some call sites only, generics at several types, enums, closures)
  Synthetic,
}

impl ProgramKind {
  pub fn name(&self) -> &'static str {
    match self {
      ProgramKind::AllTests => "P1_all_tests",
      ProgramKind::SingleTest => "P2_single_test",
      ProgramKind::IllTyped => "P3_ill_typed",
      ProgramKind::Synthetic => "P4_synthetic_well_typed",
    }
  }
}

#[derive(Clone, Debug)]
pub struct Program {
  pub name: String,
  pub kind: ProgramKind,
  pub sources: BTreeMap<ModName, String>,
  pub entry_points: Vec<ModName>,
  /// modules whose text is not the repository's (stored verbatim in replay files)
  pub overrides: BTreeSet<ModName>,
}

impl Program {
  pub fn summary(&self) -> Value {
    json!({"name": self.name, "kind": self.kind.name(), "modules": self.sources.len(), "bytes": self.sources.values().map(|s| s.len()).sum::<usize>(), "entry_points": self.entry_points.iter().map(|e| e.join(".")).collect::<Vec<_>>()})
  }

  pub fn to_json(&self) -> Value {
    json!({
      "name": self.name,
      "kind": self.kind.name(),
      "entry_points": self.entry_points,
      "modules_from_repository": self.sources.keys().filter(|m| !self.overrides.contains(*m)).collect::<Vec<_>>(),
      "modules_verbatim": self.overrides.iter().map(|m| json!({"module": m, "text": self.sources[m]})).collect::<Vec<_>>(),
    })
  }

  pub fn from_json(v: &Value) -> Program {
    let corpus = Corpus::load();
    let name_of = |x: &Value| -> ModName { x.as_array().unwrap().iter().map(|s| s.as_str().unwrap().to_string()).collect() };
    let mut sources = BTreeMap::new();
    for m in v["modules_from_repository"].as_array().cloned().unwrap_or_default() {
      let n = name_of(&m);
      match corpus.files.get(&n) {
        Some(t) => {
          sources.insert(n, t.clone());
        }
        None => {
          eprintln!("HARNESS ERROR: replay refers to {} which is not in the repository any more", n.join("."));
          std::process::exit(2);
        }
      }
    }
    let mut overrides = BTreeSet::new();
    for m in v["modules_verbatim"].as_array().cloned().unwrap_or_default() {
      let n = name_of(&m["module"]);
      sources.insert(n.clone(), m["text"].as_str().unwrap().to_string());
      overrides.insert(n);
    }
    let kind = match v["kind"].as_str().unwrap_or("") {
      "P1_all_tests" => ProgramKind::AllTests,
      "P2_single_test" => ProgramKind::SingleTest,
      "P4_synthetic_well_typed" => ProgramKind::Synthetic,
      _ => ProgramKind::IllTyped,
    };
    Program {
      name: v["name"].as_str().unwrap_or("replay").to_string(),
      kind,
      sources,
      entry_points: v["entry_points"].as_array().map(|a| a.iter().map(name_of).collect()).unwrap_or_default(),
      overrides,
    }
  }
}

pub struct Corpus {
  pub files: BTreeMap<ModName, String>,
}

fn imports_of(text: &str) -> Vec<(Vec<String>, ModName)> {
  // `import { A, B } from x.y;`
  let mut out = Vec::new();
  for line in text.lines() {
    let l = line.trim();
    if let Some(rest) = l.strip_prefix("import") {
      if let (Some(a), Some(b)) = (rest.find('{'), rest.find('}')) {
        let names: Vec<String> = rest[a + 1..b].split(',').map(|s| s.trim().to_string()).filter(|s| !s.is_empty()).collect();
        if let Some(f) = rest[b..].find("from") {
          let m: String = rest[b + f + 4..].trim().trim_end_matches(';').trim().to_string();
          out.push((names, m.split('.').map(|s| s.to_string()).collect()));
        }
      }
    }
  }
  out
}

impl Corpus {
  pub fn load() -> Corpus {
    let dir = std::env::var("VERIF_REPO").unwrap_or_else(|_| "/repo".into());
    let mut files = BTreeMap::new();
    for sub in ["std", "tests"] {
      let Ok(rd) = std::fs::read_dir(format!("{dir}/{sub}")) else { continue };
      for p in rd.flatten().map(|e| e.path()) {
        if p.extension().map(|e| e == "sam").unwrap_or(false) {
          if let (Some(stem), Ok(text)) = (p.file_stem().and_then(|s| s.to_str()), std::fs::read_to_string(&p)) {
            files.insert(vec![sub.to_string(), stem.to_string()], text);
          }
        }
      }
    }
    if files.len() < 10 {
      eprintln!("HARNESS ERROR: cannot read {dir}/std and {dir}/tests");
      std::process::exit(2);
    }
    Corpus { files }
  }

  pub fn p1(&self) -> Program {
    Program {
      name: "tests.AllTests".into(),
      kind: ProgramKind::AllTests,
      sources: self.files.clone(),
      entry_points: vec![vec!["tests".into(), "AllTests".into()]],
      overrides: BTreeSet::new(),
    }
  }

  fn closure(&self, roots: &[ModName]) -> BTreeMap<ModName, String> {
    let mut out = BTreeMap::new();
    let mut stack: Vec<ModName> = roots.to_vec();
    while let Some(m) = stack.pop() {
      if out.contains_key(&m) {
        continue;
      }
      if let Some(t) = self.files.get(&m) {
        out.insert(m.clone(), t.clone());
        for (_, dep) in imports_of(t) {
          stack.push(dep);
        }
      }
    }
    // std.tuples backs tuple syntax even when it is not imported
    let tuples = vec!["std".to_string(), "tuples".to_string()];
    if let Some(t) = self.files.get(&tuples) {
      out.entry(tuples).or_insert_with(|| t.clone());
    }
    out
  }

  /// one synthesized entry point per test module imported by tests.AllTests
  pub fn p2(&self, rng: &mut Rng, n: usize) -> Vec<Program> {
    let all = &self.files[&vec!["tests".to_string(), "AllTests".to_string()]];
    let mut cands: Vec<(String, ModName)> = Vec::new();
    for (names, m) in imports_of(all) {
      if m[0] == "tests" && names.len() == 1 && all.contains(&format!("{}.run)", names[0])) {
        cands.push((names[0].clone(), m));
      }
    }
    rng.shuffle(&mut cands);
    cands.truncate(n);
    cands.sort();
    let mut out = Vec::new();
    for (class, m) in cands {
      let entry: ModName = vec!["entry".into(), format!("Main{}", m[1])];
      let mut sources = self.closure(&[m.clone()]);
      sources.insert(entry.clone(), format!("import {{ {class} }} from {};\n\nclass Main {{\n  function main(): unit = {class}.run()\n}}\n", m.join(".")));
      let mut overrides = BTreeSet::new();
      overrides.insert(entry.clone());
      out.push(Program { name: format!("entry for {}", m.join(".")), kind: ProgramKind::SingleTest, sources, entry_points: vec![entry], overrides });
    }
    out
  }

  /// P5: hand-written multi-module programs under compile-sim/shapes/<name>/ (one .sam file per
  /// module, dots in the file name separate module name parts; ENTRY_POINTS lists the entry modules),
  /// each exercising one compiler feature whose treatment depends on table orders
  pub fn shapes(&self) -> Vec<Program> {
    let dir = simcore::report::verif_root().join("sim").join("compile-sim").join("shapes");
    let mut out = Vec::new();
    let Ok(rd) = std::fs::read_dir(&dir) else { return out };
    let mut dirs: Vec<_> = rd.flatten().map(|e| e.path()).filter(|p| p.is_dir()).collect();
    dirs.sort();
    for d in dirs {
      let mut sources = BTreeMap::new();
      let mut overrides = BTreeSet::new();
      let mut files: Vec<_> = std::fs::read_dir(&d).into_iter().flatten().flatten().map(|e| e.path()).collect();
      files.sort();
      for f in files {
        if f.extension().map(|e| e == "sam").unwrap_or(false) {
          let m: ModName = f.file_stem().unwrap().to_str().unwrap().split('.').map(|s| s.to_string()).collect();
          sources.insert(m.clone(), std::fs::read_to_string(&f).unwrap_or_default());
          overrides.insert(m);
        }
      }
      let entry_points: Vec<ModName> = std::fs::read_to_string(d.join("ENTRY_POINTS"))
        .unwrap_or_default()
        .lines()
        .filter(|l| !l.trim().is_empty())
        .map(|l| l.trim().split('.').map(|s| s.to_string()).collect())
        .collect();
      for (m, t) in &self.files {
        if m[0] == "std" {
          sources.entry(m.clone()).or_insert_with(|| t.clone());
        }
      }
      if !entry_points.is_empty() {
        out.push(Program { name: format!("shape {}", d.file_name().unwrap().to_string_lossy()), kind: ProgramKind::Synthetic, sources, entry_points, overrides });
      }
    }
    out
  }

  /// ill-typed programs whose diagnostics list names and span several modules
  pub fn p3(&self, rng: &mut Rng, k: usize) -> Program {
    if k % 4 == 3 {
      return self.p3_from_corpus(rng, k);
    }
    const LONG: &[&str] = &["aVeryLongMemberNameNumberOne", "anotherQuiteLongMemberName", "yetAnotherLongMemberNameHere", "sixteenBytesName", "memberWithLongNameNumberFive", "theLongestMemberNameOfThemAllSoFar"];
    const SHORT: &[&str] = &["a", "b", "c", "foo", "bar", "baz", "run", "get"];
    const ULONG: &[&str] = &["VariantWithAVeryLongName", "AnotherVariantLongName", "SixteenBytesVarnt", "YetAnotherVariantNameHere"];
    const USHORT: &[&str] = &["A", "B", "C", "D", "Leaf", "Node"];
    let long_bias = *rng.pick(&[0usize, 30, 60, 100]);
    let n_modules = rng.range(3, 6);
    let pick_names = |rng: &mut Rng, n: usize, long: &[&str], short: &[&str]| -> Vec<String> {
      let mut v: Vec<String> = Vec::new();
      let mut guard = 0;
      while v.len() < n && guard < 100 {
        guard += 1;
        let s = if rng.below(100) < long_bias { *rng.pick(long) } else { *rng.pick(short) };
        if !v.iter().any(|x| x == s) {
          v.push(s.to_string());
        }
      }
      while v.len() < n {
        v.push(format!("generatedName{}", v.len()));
      }
      v
    };
    let mut sources = BTreeMap::new();
    let mut overrides = BTreeSet::new();
    let names: Vec<ModName> = (0..n_modules)
      .map(|i| if rng.chance(1, 2) { vec![format!("M{i}")] } else { vec!["pkg".into(), format!("ModuleWithLongName{i}")] })
      .collect();
    let shared_missing = rng.chance(2, 3);
    for (i, m) in names.iter().enumerate() {
      let mut t = String::new();
      let other = &names[(i + 1) % n_modules];
      t.push_str(&format!("import {{ Exported{}, NotThere{i} }} from {};\n", (i + 1) % n_modules, other.join(".")));
      // several modules import from the same module that does not exist
      if shared_missing && rng.chance(3, 4) {
        t.push_str(&format!("import {{ Gone{i} }} from absent.SharedMissingModule;\n"));
      }
      if rng.chance(1, 3) {
        t.push_str(&format!("import {{ AlsoGone }} from absent.AnotherMissingModuleWithLongName;\n"));
      }
      // the same class name brought in by two imports
      if n_modules > 2 && rng.chance(1, 3) {
        let third = &names[(i + 2) % n_modules];
        t.push_str(&format!("import {{ Exported{} }} from {};\n", (i + 1) % n_modules, third.join(".")));
      }
      t.push('\n');
      let n_methods = rng.range(2, 5);
      let methods = pick_names(rng, n_methods, LONG, SHORT);
      t.push_str(&format!("interface Iface{i} {{\n"));
      for m in &methods {
        t.push_str(&format!("  method {m}(): int\n"));
      }
      t.push_str("}\n\n");
      let implemented = rng.below(2);
      t.push_str(&format!("class Impl{i} : Iface{i} {{\n"));
      for m in methods.iter().take(implemented) {
        t.push_str(&format!("  method {m}(): int = 1\n"));
      }
      t.push_str("}\n\n");
      let n_fields = rng.range(3, 5);
      let fields = pick_names(rng, n_fields, LONG, SHORT);
      t.push_str(&format!("class Exported{i}({}) {{\n", fields.iter().map(|f| format!("val {f}: int")).collect::<Vec<_>>().join(", ")));
      t.push_str(&format!("  method sum(): int = {{\n    let {{ {} }} = this;\n    {}\n  }}\n}}\n\n", fields[0], fields[0]));
      let n_variants = rng.range(3, 5);
      let variants = pick_names(rng, n_variants, ULONG, USHORT);
      t.push_str(&format!("class Enum{i}({}) {{\n", variants.join(", ")));
      t.push_str(&format!("  method pick(): int = match this {{ {} -> 1 }}\n", variants[0]));
      if rng.chance(1, 2) {
        t.push_str(&format!("  method other(o: Exported{}): int = Unknown{i}.compute(o)\n", (i + 1) % n_modules));
      }
      if rng.chance(1, 3) {
        // the same member twice, and a call with the wrong arity
        t.push_str("  method twice(): int = 1\n  method twice(): int = 2\n  method arity(): int = this.pick(1, 2)\n");
      }
      t.push_str("}\n");
      if rng.chance(1, 4) {
        // the same class twice in one module
        t.push_str(&format!("\nclass Enum{i} {{ function again(): int = 0 }}\n"));
      }
      if rng.chance(1, 2) {
        // non-exhaustive matches in which every constructor of a column is mentioned and several
        // constructors of the same arity each leave a gap further down or further right: which
        // counter-example is shown depends on the order in which the constructors are tried
        let vs = pick_names(rng, 3, ULONG, USHORT);
        let inner = pick_names(rng, 2, &["InnerVariantWithALongNameOne", "InnerVariantWithALongNameTwo"], &["Nothing", "Just"]);
        t.push_str(&format!(
          "\nclass Inner{i}({}, {}(int)) {{}}\nclass Gaps{i}({}(Inner{i}), {}(Inner{i}), {}) {{\n  method nested(): int = match this {{ {}({}(r)) -> r, {}({}(w)) -> w, {} -> 0 }}\n  function pairs(a: Gaps{i}, b: Gaps{i}): int = match (a, b) {{ ({}(_), {}(_)) -> 1, ({}(_), {}(_)) -> 2, ({}, {}) -> 3 }}\n}}\n",
          inner[0], inner[1], vs[0], vs[1], vs[2],
          vs[0], inner[1], vs[1], inner[1], vs[2],
          vs[0], vs[0], vs[1], vs[1], vs[2], vs[2],
        ));
      }
      if rng.chance(1, 3) {
        // two interfaces with the same member, one class implementing both and neither
        t.push_str(&format!("\ninterface Left{i} {{ method shared(): int }}\ninterface Right{i} {{ method shared(): Str }}\nclass Both{i} : Left{i}, Right{i} {{ }}\n"));
      }
      sources.insert(m.clone(), t);
      overrides.insert(m.clone());
    }
    Program { name: format!("synthetic ill-typed #{k}"), kind: ProgramKind::IllTyped, sources, entry_points: vec![names[0].clone()], overrides }
  }

  /// P4: a well-typed, terminating program: functions form a DAG (a function only calls functions
  /// generated before it), spread over several modules and classes so that their relative order in
  /// every table of the compiler depends on hash seeds and module enumeration order.
  pub fn p4(&self, rng: &mut Rng, k: usize) -> Program {
    let n_modules = rng.range(3, 6);
    let mod_names: Vec<ModName> = (0..n_modules)
      .map(|i| match rng.below(3) {
        0 => vec![format!("M{i}")],
        1 => vec!["lib".into(), format!("Part{i}")],
        _ => vec!["DirectoryWithLongName".into(), format!("ModuleNumber{i}")],
      })
      .collect();
    // classes: (module index, class name); a class name may repeat in different modules only if
    // never imported together, so keep them globally unique but similar
    struct F {
      class: usize,
      name: String,
      params: usize,
      body: String,
    }
    let n_classes = rng.range(n_modules, n_modules + 4);
    let classes: Vec<(usize, String)> = (0..n_classes).map(|c| (if c < n_modules { c } else { rng.below(n_modules) }, format!("{}{c}", rng.pick(&["Calc", "Helper", "Worker", "AVeryLongUtilityClassName"])))).collect();
    let mut fns: Vec<F> = Vec::new();
    let n_fns = rng.range(6, 18);
    let lits = [0i32, 1, 2, 3, 5, 7, 10, 100, 500, 600];
    for i in 0..n_fns {
      let class = rng.below(n_classes);
      let params = rng.range(1, 3);
      let pn: Vec<String> = (0..params).map(|p| format!("p{p}")).collect();
      let callee_arg = |rng: &mut Rng, pn: &Vec<String>| -> String {
        match rng.below(4) {
          0 => format!("{}", rng.pick(&lits)),
          1 | 2 => rng.pick(pn).clone(),
          _ => format!("{} + {}", rng.pick(pn), rng.pick(&lits)),
        }
      };
      let body = if i == 0 || rng.chance(1, 4) {
        // leaf: arithmetic on parameters
        let a = rng.pick(&pn).clone();
        let b = rng.pick(&pn).clone();
        match rng.below(4) {
          0 => format!("{a} + {}", rng.pick(&lits)),
          1 => format!("{a} * {} + {b}", rng.pick(&[2, 3, 5])),
          2 => format!("if {a} < {} {{ {b} + 1 }} else {{ {a} - {b} }}", rng.pick(&lits)),
          _ => format!("{a} - {b} + {}", rng.pick(&lits)),
        }
      } else if rng.chance(1, 3) {
        // wrapper: forwards its own parameters unchanged to an earlier function
        let j = rng.below(i);
        let args: Vec<String> = (0..fns[j].params).map(|_| rng.pick(&pn).clone()).collect();
        format!("{}.{}({})", classes[fns[j].class].1, fns[j].name, args.join(", "))
      } else {
        // combines two earlier functions
        let j1 = rng.below(i);
        let j2 = rng.below(i);
        let a1: Vec<String> = (0..fns[j1].params).map(|_| callee_arg(rng, &pn)).collect();
        let a2: Vec<String> = (0..fns[j2].params).map(|_| callee_arg(rng, &pn)).collect();
        let op = *rng.pick(&["+", "-", "*"]);
        let c1 = format!("{}.{}({})", classes[fns[j1].class].1, fns[j1].name, a1.join(", "));
        let c2 = format!("{}.{}({})", classes[fns[j2].class].1, fns[j2].name, a2.join(", "));
        if rng.chance(1, 3) {
          format!("{{\n    let first = {c1};\n    let second = (x: int) -> x {op} {c2};\n    second(first)\n  }}")
        } else {
          format!("{c1} {op} {c2}")
        }
      };
      fns.push(F { class, name: format!("{}{i}", rng.pick(&["f", "compute", "aFunctionWithALongName"])), params, body });
    }
    let mut sources: BTreeMap<ModName, String> = BTreeMap::new();
    let mut overrides = BTreeSet::new();
    // a shared generic container and an enum, used at several types
    let shared: ModName = vec!["shared".into(), "Containers".into()];
    sources.insert(
      shared.clone(),
      "class Box<T>(val content: T) {\n  method get(): T = this.content\n  method <R> map(f: (T) -> R): Box<R> = Box.init(f(this.content))\n}\n\nclass Shape(Circle(int), Square(int), Named(Str, int), Empty) {\n  method area(): int = match this { Circle(r) -> r * r * 3, Square(s) -> s * s, Named(_, v) -> v, Empty -> 0 }\n  method label(): Str = match this { Circle(_) -> \"circle\", Square(_) -> \"square\", Named(n, _) -> n, Empty -> \"empty\" }\n}\n".to_string(),
    );
    overrides.insert(shared.clone());
    for (mi, m) in mod_names.iter().enumerate() {
      let mut t = String::new();
      // imports: every class of other modules that functions here call
      let mut needed: BTreeMap<usize, BTreeSet<String>> = BTreeMap::new();
      for f in fns.iter().filter(|f| classes[f.class].0 == mi) {
        for (ci, (cm, cn)) in classes.iter().enumerate() {
          let _ = ci;
          if *cm != mi && f.body.contains(&format!("{cn}.")) {
            needed.entry(*cm).or_default().insert(cn.clone());
          }
        }
      }
      for (cm, names) in &needed {
        t.push_str(&format!("import {{ {} }} from {};\n", names.iter().cloned().collect::<Vec<_>>().join(", "), mod_names[*cm].join(".")));
      }
      if !needed.is_empty() {
        t.push('\n');
      }
      for (ci, (cm, cn)) in classes.iter().enumerate() {
        if *cm != mi {
          continue;
        }
        t.push_str(&format!("class {cn} {{\n"));
        for f in fns.iter().filter(|f| f.class == ci) {
          let ps: Vec<String> = (0..f.params).map(|p| format!("p{p}: int")).collect();
          t.push_str(&format!("  function {}({}): int = {}\n\n", f.name, ps.join(", "), f.body));
        }
        t.push_str("}\n\n");
      }
      sources.insert(m.clone(), t);
      overrides.insert(m.clone());
    }
    // loop classes: tail-recursive functions with constant bounds (the compiler turns them into
    // while loops; strength reduction / induction-variable elimination allocate temporaries for
    // them in every optimizer round), two of which call a closure inside the loop
    let n_loops = rng.range(2, 8);
    let mut loop_classes: Vec<(usize, String)> = Vec::new();
    for l in 0..n_loops {
      let mi = rng.below(n_modules);
      let cn = format!("{}{l}", rng.pick(&["Loop", "Walker", "AnIteratingClassWithLongName"]));
      let (b1, m1, a1, s1) = (rng.range(4, 18), rng.range(2, 13), rng.range(1, 12), rng.range(1, 3));
      let (b2, m2, b3, s3) = (rng.range(5, 20), rng.range(2, 14), rng.range(10, 32), rng.range(1, 2));
      let t = format!(
        "class {cn} {{\n  function each(i: int, f: (int) -> unit): unit =\n    if i >= {b1} {{  }} else {{\n      f(i * {m1} + {a1});\n      {cn}.each(i + {s1}, f)\n    }}\n\n  function fold(i: int, acc: int, f: (int, int) -> int): int =\n    if i >= {b2} {{ acc }} else {{ {cn}.fold(i + 1, f(acc, i * {m2} + 5), f) }}\n\n  function sum(i: int, acc: int): int =\n    if i >= {b3} {{ acc }} else {{ {cn}.sum(i + {s3}, acc + i * {m1} + {l}) }}\n\n  function run(seed: int): unit = {{\n    {cn}.each(seed, (x) -> Process.println(Str.fromInt(x)));\n    Process.println(Str.fromInt({cn}.fold(seed, {l}, (a, b) -> a + b * 2)));\n    Process.println(Str.fromInt({cn}.sum(seed, 1)));\n  }}\n}}\n\n"
      );
      // loops with several loop-carried values that feed each other (a sliding pair, a rotation):
      // the back ends assign loop variables one after another, so the order in which the optimizer
      // lists them is part of the program's meaning
      let (c1, c2) = (rng.range(2, 4), rng.range(1, 5));
      let sliding = format!(
        "class {cn}Sliding {{\n  function fib(n: int, a: int, b: int): int =\n    if n <= 0 {{ a }} else {{ {cn}Sliding.fib(n - 1, b, a + b) }}\n\n  function pell(k: int, previous: int, current: int): int =\n    if k <= 0 {{ previous }} else {{ {cn}Sliding.pell(k - 1, current, {c1} * current + previous) }}\n\n  function rotate(n: int, a: int, b: int, c: int, label: Str): Str =\n    if n <= 0 {{ label :: Str.fromInt(a * 100 + b * 10 + c) }} else {{ {cn}Sliding.rotate(n - 1, b, c, a + {c2}, label) }}\n\n  function run(seed: int): unit = {{\n    let n = {cn}.sum(seed, 1) % 5 + 6;\n    Process.println(Str.fromInt({cn}Sliding.fib(n, 0, 1)));\n    Process.println(Str.fromInt({cn}Sliding.pell(n, 0, 1)));\n    Process.println({cn}Sliding.rotate(n, 1, 2, 3, \"r\"));\n    Process.println(Str.fromInt({cn}Sliding.fib(10, 0, 1)));\n  }}\n}}\n\n"
      );
      let t = format!("{t}{sliding}");
      let m = mod_names[mi].clone();
      sources.get_mut(&m).unwrap().push_str(&t);
      loop_classes.push((mi, cn.clone()));
      loop_classes.push((mi, format!("{cn}Sliding")));
    }
    // closure classes: lambdas that capture several variables of different types (closure context
    // structs are synthesized per captured-type list; the capture set is a hash map)
    let n_closures = rng.range(1, 5);
    let mut closure_classes: Vec<(usize, String)> = Vec::new();
    for c in 0..n_closures {
      let mi = rng.below(n_modules);
      let cn = format!("{}{c}", rng.pick(&["Closures", "Capturing", "AClassFullOfClosuresWithLongName"]));
      let lit = rng.pick(&["shared literal", "label", "another shared string literal"]).to_string();
      let k = rng.range(1, 9);
      let t = format!(
        "class {cn} {{\n  function make(count: int, label: Str, flag: bool): (int) -> Str =\n    (x) -> if flag {{ label :: Str.fromInt(count + x) }} else {{ Str.fromInt(x - count) :: label }}\n\n  function other(label: Str, count: int): () -> Str = () -> Str.fromInt(count * {k}) :: \"{lit}\" :: label\n\n  function third(a: int, b: Str, c: int, d: Str): (Str) -> Str = (s) -> s :: b :: Str.fromInt(a + c) :: d\n\n  function curried(a: int): (int) -> (int) -> int = (b: int) -> (c: int) -> a * {k} + b * c\n\n  function run(seed: int): unit = {{\n    Process.println(Str.fromInt({cn}.curried(seed)(seed + 1)({k})));\n    Process.println({cn}.make(seed, \"{lit}\", seed < {k})(seed + {k}));\n    Process.println({cn}.other(\"{lit}\", seed + 1)());\n    Process.println({cn}.third(seed, \"x\", {k}, \"{lit}\")(\"<\"));\n  }}\n}}\n\n"
      );
      let m = mod_names[mi].clone();
      sources.get_mut(&m).unwrap().push_str(&t);
      closure_classes.push((mi, cn));
    }
    // an interface hierarchy declared in one module and implemented by a class of every module:
    // the checks of all modules (one job each) resolve the same transitive super types
    let hierarchy_depth = rng.range(3, 10);
    let hierarchy_chains = rng.range(1, 3);
    {
      let mut h = String::new();
      for c in 0..hierarchy_chains {
        for d in 0..hierarchy_depth {
          if d + 1 < hierarchy_depth {
            h.push_str(&format!("interface Chain{c}Level{d} : Chain{c}Level{} {{}}\n\n", d + 1));
          } else {
            h.push_str(&format!("interface Chain{c}Level{d} {{\n  method describe(): Str\n}}\n\n"));
          }
        }
      }
      sources.get_mut(&mod_names[0]).unwrap().push_str(&h);
    }
    for (mi, m) in mod_names.iter().enumerate() {
      let t = sources.get_mut(m).unwrap();
      if mi != 0 {
        let names: Vec<String> = (0..hierarchy_chains).map(|c| format!("Chain{c}Level0")).collect();
        *t = format!("import {{ {} }} from {};\n{t}", names.join(", "), mod_names[0].join("."));
      }
      let mut runs = String::new();
      for c in 0..hierarchy_chains {
        t.push_str(&format!(
          "class Tagged{mi}Of{c}(val id: int) : Chain{c}Level0 {{\n  method describe(): Str = \"tagged {c} \" :: Str.fromInt(this.id + {mi})\n}}\n\n"
        ));
        runs.push_str(&format!("    Process.println(Tagged{mi}Of{c}.init({mi}).describe());\n"));
      }
      t.push_str(&format!("class Tagged{mi} {{\n  function run(): unit = {{\n{runs}  }}\n}}\n\n"));
    }
    // the same private class name and the same enum shape in every module; a generic enum used at
    // two types in each module
    for (mi, m) in mod_names.iter().enumerate() {
      let t = format!(
        "private class LocalUtil {{\n  function twice(x: int): int = x * 2 + {mi}\n}}\n\nclass Maybe{mi}<T>(Nothing, Just(T)) {{\n  method <R> fold(d: R, f: (T) -> R): R = match this {{ Nothing -> d, Just(v) -> f(v) }}\n}}\n\nclass SameShape{mi}(First(int), Second(Str), Third) {{\n  method show(): Str = match this {{ First(i) -> Str.fromInt(LocalUtil.twice(i)), Second(s) -> s, Third -> \"third\" }}\n\n  function run(): unit = {{\n    Process.println(SameShape{mi}.First({mi}).show() :: SameShape{mi}.Second(\"shared literal\").show() :: SameShape{mi}.Third().show());\n    Process.println(Str.fromInt(Maybe{mi}.Just({mi} + 5).fold(0, (v) -> v + 1)) :: Maybe{mi}.Just(\"shared literal\").fold(\"\", (v) -> v) :: Maybe{mi}.Nothing<int>().fold(\"none\", (v) -> Str.fromInt(v)));\n  }}\n}}\n\n"
      );
      sources.get_mut(m).unwrap().push_str(&t);
    }
    // mutually recursive enums with nullary variants, in two different modules (the enum layout
    // choice of the specializer depends on which of the two is "currently being processed")
    let (ra, rb) = (0usize, 1usize % n_modules);
    let rec_a = format!("import {{ RecB }} from {};\n", mod_names[rb].join("."));
    let rec_b = format!("import {{ RecA }} from {};\n", mod_names[ra].join("."));
    if ra != rb {
      let ta = sources.get_mut(&mod_names[ra]).unwrap();
      *ta = format!("{rec_a}{ta}\nclass RecA(AX, AY(RecB), AZ(int)) {{\n  method show(): Str = match this {{ AX -> \"A.X\", AY(b) -> \"A.Y(\" :: b.show() :: \")\", AZ(i) -> Str.fromInt(i) }}\n}}\n\n");
      let tb = sources.get_mut(&mod_names[rb]).unwrap();
      *tb = format!("{rec_b}{tb}\nclass RecB(BP, BQ(RecA)) {{\n  method show(): Str = match this {{ BP -> \"B.P\", BQ(a) -> \"B.Q(\" :: a.show() :: \")\" }}\n}}\n\n");
    }
    // structural twins: classes in different modules that are structurally equal (type
    // deduplication merges them), wrappers around them, and a holder of one wrapper that is really
    // allocated at run time (built in a non-tail-recursive method, so it cannot be optimised away)
    let (ta, tb) = (n_modules - 1, (n_modules - 2) % n_modules);
    let twins = ta != tb && rng.chance(3, 4);
    if twins {
      let k = rng.range(2, 9);
      // asymmetric on half of the programs: the two holders then do not deduplicate with each other
      let asym = rng.chance(1, 2);
      let (extra_field, extra_arg) = if asym { (", val note: Str", ", \"n\"") } else { ("", "") };
      let a = format!(
        "class Vec2(val x: int, val y: int) {{\n  method dot(o: Vec2): int = this.x * o.x + this.y * o.y\n}}\n\nclass Segment(val start: Vec2, val end: Vec2) {{\n  method span(n: int): int = if n <= 0 {{ this.start.dot(this.end) }} else {{ this.span(n - 1) + this.end.x - this.start.y + {k} }}\n}}\n\nclass Path(val first: Segment, val hops: int{extra_field}) {{\n  method extend(n: int): Path = if n <= 0 {{ this }} else {{ Path.init(Segment.init(this.first.end, this.first.start), this.hops + 1{extra_arg}).extend(n - 1) }}\n  method show(): Str = Str.fromInt(this.first.span(3)) :: \"/\" :: Str.fromInt(this.hops)\n}}\n\n"
      );
      let b = format!(
        "class Money(val units: int, val cents: int) {{\n  method plus(o: Money): int = this.units * o.units + this.cents * o.cents\n}}\n\nclass Transfer(val src: Money, val dst: Money) {{\n  method compound(n: int): int = if n <= 0 {{ this.src.plus(this.dst) }} else {{ this.compound(n - 1) + this.dst.units - this.src.cents + {} }}\n}}\n\nclass Ledger(val last: Transfer, val count: int) {{\n  method replay(n: int): Ledger = if n <= 0 {{ this }} else {{ Ledger.init(Transfer.init(this.last.dst, this.last.src), this.count + 1).replay(n - 1) }}\n  method show(): Str = Str.fromInt(this.last.compound(3)) :: \"/\" :: Str.fromInt(this.count)\n}}\n\n",
        k + 1
      );
      // on half of the programs only one side has a holder and a surviving recursive method
      let a = if rng.chance(1, 2) {
        a
      } else {
        "class Vec2(val x: int, val y: int) {\n  method dot(o: Vec2): int = this.x * o.x + this.y * o.y\n}\n\nclass Segment(val start: Vec2, val end: Vec2) {\n  method span(n: int): int = this.start.dot(this.end) + n\n}\n\nclass Path(val hops: int) {\n  method extend(n: int): Path = Path.init(this.hops + n)\n  method show(): Str = Str.fromInt(Segment.init(Vec2.init(this.hops, 1), Vec2.init(2, 3)).span(3)) :: \"/\" :: Str.fromInt(this.hops)\n}\n\n".to_string()
      };
      sources.get_mut(&mod_names[ta]).unwrap().push_str(&a);
      sources.get_mut(&mod_names[tb]).unwrap().push_str(&b);
    }
    // main: call every function from here with literals; different literals for the same function
    let main: ModName = vec!["app".into(), "Main".into()];
    let mut t = String::new();
    let mut by_mod: BTreeMap<usize, BTreeSet<String>> = BTreeMap::new();
    for (cm, cn) in &classes {
      if fns.iter().any(|f| &classes[f.class].1 == cn) {
        by_mod.entry(*cm).or_default().insert(cn.clone());
      }
    }
    for (cm, names) in &by_mod {
      t.push_str(&format!("import {{ {} }} from {};\n", names.iter().cloned().collect::<Vec<_>>().join(", "), mod_names[*cm].join(".")));
    }
    for (cm, cn) in &loop_classes {
      t.push_str(&format!("import {{ {cn} }} from {};\n", mod_names[*cm].join(".")));
    }
    for (cm, cn) in &closure_classes {
      t.push_str(&format!("import {{ {cn} }} from {};\n", mod_names[*cm].join(".")));
    }
    for (mi, m) in mod_names.iter().enumerate() {
      t.push_str(&format!("import {{ SameShape{mi}, Tagged{mi} }} from {};\n", m.join(".")));
    }
    if ra != rb {
      t.push_str(&format!("import {{ RecA }} from {};\nimport {{ RecB }} from {};\n", mod_names[ra].join("."), mod_names[rb].join(".")));
    }
    if twins {
      t.push_str(&format!("import {{ Vec2, Segment, Path }} from {};\nimport {{ Money, Transfer, Ledger }} from {};\n", mod_names[ta].join("."), mod_names[tb].join(".")));
    }
    t.push_str("import { Box, Shape } from shared.Containers;\n\nclass Main {\n  function main(): unit = {\n");
    for (li, (_, cn)) in loop_classes.iter().enumerate() {
      t.push_str(&format!("    {cn}.run({});\n", li % 2));
    }
    for (ci, (_, cn)) in closure_classes.iter().enumerate() {
      t.push_str(&format!("    {cn}.run({});\n", ci + 1));
    }
    for mi in 0..n_modules {
      t.push_str(&format!("    SameShape{mi}.run();\n    Tagged{mi}.run();\n"));
    }
    if twins {
      if sources[&mod_names[ta]].contains("class Path(val hops: int)") {
        t.push_str("    Process.println(Path.init(0).extend(3).show());\n");
      } else {
        t.push_str(&format!("    Process.println(Path.init(Segment.init(Vec2.init(1, 2), Vec2.init(3, 4)), 0{}).extend(3).show());\n", if sources[&mod_names[ta]].contains("val note: Str") { ", \"n\"" } else { "" }));
      }
      t.push_str("    Process.println(Ledger.init(Transfer.init(Money.init(5, 6), Money.init(7, 8)), 0).replay(4).show());\n");
    }
    if ra != rb {
      t.push_str("    Process.println(RecA.AY(RecB.BP()).show() :: \" \" :: RecB.BQ(RecA.AX()).show() :: \" \" :: RecA.AY(RecB.BQ(RecA.AZ(7))).show() :: \" \" :: RecA.AX().show() :: \" \" :: RecB.BP().show());\n");
    }
    for (i, f) in fns.iter().enumerate() {
      for _ in 0..rng.range(1, 2) {
        let args: Vec<String> = (0..f.params).map(|_| format!("{}", rng.pick(&lits))).collect();
        t.push_str(&format!("    Process.println(\"f{i}=\" :: Str.fromInt({}.{}({})));\n", classes[f.class].1, f.name, args.join(", ")));
      }
    }
    t.push_str("    Process.println(Str.fromInt(Box.init(20).map((x) -> x + 1).get()));\n");
    t.push_str("    Process.println(Box.init(\"a string literal\").map((x) -> x :: \"!\").get());\n");
    t.push_str("    Process.println(Box.init(Shape.Named(\"a named shape\", 9)).map((x) -> x.label()).get());\n");
    t.push_str("    Process.println(Str.fromInt(Shape.Circle(2).area() + Shape.Square(3).area() + Shape.Empty().area()));\n");
    t.push_str("  }\n}\n");
    sources.insert(main.clone(), t);
    overrides.insert(main.clone());
    // tuples module backs tuple syntax; std is not otherwise needed
    let tuples = vec!["std".to_string(), "tuples".to_string()];
    if let Some(x) = self.files.get(&tuples) {
      sources.insert(tuples, x.clone());
    }
    let mut entry_points = vec![main];
    if ra != rb && rng.chance(1, 2) {
      for (e, first) in [("Second", "RecB"), ("Third", "RecA")].iter().take(rng.range(1, 2)) {
        let m: ModName = vec!["app".into(), e.to_string()];
        let body = if *first == "RecB" {
          "    Process.println(RecB.BQ(RecA.AY(RecB.BP())).show());\n    Process.println(RecB.BP().show() :: RecA.AX().show());\n"
        } else {
          "    Process.println(RecA.AY(RecB.BQ(RecA.AX())).show());\n    Process.println(RecA.AZ(3).show() :: RecB.BP().show());\n"
        };
        let text = format!(
          "import {{ RecA }} from {};\nimport {{ RecB }} from {};\n\nclass Main {{\n  function main(): unit = {{\n{body}  }}\n}}\n",
          mod_names[ra].join("."),
          mod_names[rb].join(".")
        );
        sources.insert(m.clone(), text);
        overrides.insert(m.clone());
        entry_points.push(m);
      }
    }
    Program { name: format!("synthetic well-typed #{k}"), kind: ProgramKind::Synthetic, sources, entry_points, overrides }
  }

  fn p3_from_corpus(&self, rng: &mut Rng, k: usize) -> Program {
    // rename an exported class, or drop an import, in a module that many others use
    let mut sources: BTreeMap<ModName, String> = self.files.clone();
    sources.remove(&vec!["tests".to_string(), "AllTests".to_string()]);
    // keep it small: StdLib + 6 random tests + std
    let test_mods: Vec<ModName> = sources.keys().filter(|m| m[0] == "tests" && m[1] != "StdLib").cloned().collect();
    let mut keep: Vec<ModName> = Vec::new();
    for _ in 0..6 {
      keep.push(rng.pick(&test_mods).clone());
    }
    sources.retain(|m, _| m[0] == "std" || m[1] == "StdLib" || keep.contains(m));
    let mut overrides = BTreeSet::new();
    let target = vec!["tests".to_string(), "StdLib".to_string()];
    if let Some(t) = sources.get(&target).cloned() {
      let t2 = match rng.below(2) {
        0 => t.replace("class ForTests", "class ForTestsRenamedToSomethingLong"),
        _ => t.replace("assertIntEquals", "assertIntEqualsRenamedToALongName"),
      };
      sources.insert(target.clone(), t2);
      overrides.insert(target);
    }
    // and remove the first import of one kept module
    if let Some(m) = keep.first() {
      if let Some(t) = sources.get(m).cloned() {
        let t2: String = t.lines().enumerate().filter(|(i, l)| !(*i == 0 && l.starts_with("import"))).map(|(_, l)| format!("{l}\n")).collect();
        sources.insert(m.clone(), t2);
        overrides.insert(m.clone());
      }
    }
    let entry = keep.first().cloned().unwrap_or(vec!["tests".into(), "StdLib".into()]);
    Program { name: format!("corpus ill-typed #{k}"), kind: ProgramKind::IllTyped, sources, entry_points: vec![entry], overrides }
  }
}
